//! The driver closes the system: it plays the UI side of the Runtime protocol
//! exactly as src/term/mod.rs does and normalises the event stream.

use basic::mach::{Event, Listing, Runtime};
use std::collections::VecDeque;

#[derive(Clone, Debug, PartialEq)]
pub struct ErrInfo {
    pub code: String,
    pub line: Option<u32>,
    pub col: Option<usize>,
    pub msg: String,
    pub raw: String,
    /// character range inside the listed line (Error::column())
    pub range: (usize, usize),
}

pub fn parse_error(raw: &str) -> ErrInfo {
    // "?CODE[ IN line[:col]][; message]"
    let mut body = raw.strip_prefix('?').unwrap_or(raw).to_string();
    let mut msg = String::new();
    if let Some(i) = body.find("; ") {
        msg = body[i + 2..].to_string();
        body.truncate(i);
    }
    let mut line = None;
    let mut col = None;
    if let Some(i) = body.rfind(" IN ") {
        let tail = &body[i + 4..];
        let (l, c) = match tail.find(':') {
            Some(j) => (&tail[..j], Some(&tail[j + 1..])),
            None => (tail, None),
        };
        if !l.is_empty() && l.chars().all(|ch| ch.is_ascii_digit()) {
            line = l.parse().ok();
            col = c.and_then(|c| c.parse().ok());
            body.truncate(i);
        }
    }
    ErrInfo {
        code: body,
        line,
        col,
        msg,
        raw: raw.to_string(),
        range: (0, 0),
    }
}

#[derive(Clone, Debug, PartialEq)]
pub enum Ev {
    Out(String),
    Err(Vec<ErrInfo>),
    Prompt(String, bool),
    List(String, Vec<(usize, usize)>),
    Cls,
    /// READY prompt; true if a newline was forced first
    Ready(bool),
    Inkey,
    Load(String),
    Run(String),
    Save(String),
    /// budget exhausted: the driver interrupted the program here
    Cut,
}

#[derive(Clone, Copy, Debug, PartialEq)]
pub enum Status {
    Stopped,
    AwaitInput,
    Cut,
}

pub struct Session {
    pub rt: Runtime,
    pub replies: VecDeque<String>,
    pub keys: VecDeque<String>,
    pub quantum: usize,
    /// maximum number of execute() calls per drain
    pub max_calls: usize,
    pub ev: Vec<Ev>,
    pub calls: u64,
    /// files offered to LOAD / RUN "name"
    pub files: Vec<(String, String)>,
    pub saved: Vec<(String, String)>,
    pending: Option<String>,
    /// when set, an INPUT prompt is never answered automatically
    pub hold_input: bool,
}

impl Session {
    /// Fresh interpreter, intro and first READY consumed (as the terminal does).
    pub fn new() -> Session {
        Session::with(5000, 64)
    }

    pub fn with(quantum: usize, max_calls: usize) -> Session {
        let mut s = Session {
            rt: Runtime::default(),
            replies: VecDeque::new(),
            keys: VecDeque::new(),
            quantum,
            max_calls,
            ev: vec![],
            calls: 0,
            files: vec![],
            saved: vec![],
            pending: None,
            hold_input: false,
        };
        s.drain();
        s.ev.clear();
        s
    }

    fn push_out(&mut self, s: String) {
        if let Some(Ev::Out(prev)) = self.ev.last_mut() {
            prev.push_str(&s);
        } else {
            self.ev.push(Ev::Out(s));
        }
    }

    pub fn convert_errors(errors: &[basic::lang::Error]) -> Vec<ErrInfo> {
        let mut v: Vec<ErrInfo> = errors
            .iter()
            .map(|e| {
                let mut info = parse_error(&e.to_string());
                // take the structured values where the API offers them
                info.line = e.line_number().map(|n| n as u32);
                let c = e.column();
                info.range = (c.start, c.end);
                info
            })
            .collect();
        // link errors come out in HashMap order: not an observable guarantee
        v.sort_by(|a, b| (a.line, a.col, &a.raw).cmp(&(b.line, b.col, &b.raw)));
        v
    }

    /// One execute() call translated into events. Returns Some(status) when the
    /// driver must stop draining.
    pub fn step(&mut self) -> Option<Status> {
        self.calls += 1;
        let event = self.rt.execute(self.quantum);
        let pending = self.pending.take();
        if !matches!(event, Event::Stopped | Event::Print(_)) {
            if let Some(p) = pending.clone() {
                self.push_out(p);
            }
        }
        match event {
            Event::Stopped => {
                // the READY prompt is the Print immediately before Stopped
                if let Some(p) = pending {
                    self.ev.push(Ev::Ready(p.starts_with('\n')));
                }
                return Some(Status::Stopped);
            }
            Event::Print(s) => {
                if let Some(p) = pending {
                    self.push_out(p);
                }
                if s == "READY.\n" || s == "\nREADY.\n" {
                    self.pending = Some(s);
                } else {
                    self.push_out(s);
                }
                return None;
            }
            Event::Errors(errors) => {
                let v = Session::convert_errors(&errors);
                self.ev.push(Ev::Err(v));
            }
            Event::Input(p, caps) => {
                self.ev.push(Ev::Prompt(p, caps));
                if self.hold_input {
                    return Some(Status::AwaitInput);
                }
                match self.replies.pop_front() {
                    Some(r) => {
                        self.rt.enter(&r);
                    }
                    None => return Some(Status::AwaitInput),
                }
            }
            Event::List((s, cols)) => {
                self.ev
                    .push(Ev::List(s, cols.iter().map(|r| (r.start, r.end)).collect()));
            }
            Event::Cls => self.ev.push(Ev::Cls),
            Event::Inkey => {
                self.ev.push(Ev::Inkey);
                let k = self.keys.pop_front().unwrap_or_default();
                self.rt.enter(&k);
            }
            Event::Load(name) => {
                self.ev.push(Ev::Load(name.clone()));
                self.offer(&name, false);
            }
            Event::Run(name) => {
                self.ev.push(Ev::Run(name.clone()));
                self.offer(&name, true);
            }
            Event::Save(name) => {
                let mut text = String::new();
                for l in self.rt.get_listing().lines() {
                    text.push_str(&l.to_string());
                    text.push('\n');
                }
                self.saved.push((name.clone(), text));
                self.ev.push(Ev::Save(name));
            }
            Event::Running => {}
        }
        None
    }

    fn offer(&mut self, name: &str, run: bool) {
        let text = self
            .files
            .iter()
            .find(|(n, _)| n == name)
            .map(|(_, t)| t.clone());
        if let Some(text) = text {
            let mut listing = Listing::default();
            let mut ok = true;
            for l in text.lines() {
                if listing.load_str(l).is_err() {
                    ok = false;
                    break;
                }
            }
            if ok {
                self.rt.set_listing(listing, run);
            }
        }
    }

    pub fn drain(&mut self) -> Status {
        for _ in 0..self.max_calls {
            if let Some(st) = self.step() {
                return st;
            }
        }
        // budget exhausted
        self.rt.interrupt();
        self.ev.push(Ev::Cut);
        for _ in 0..16 {
            if let Some(Status::Stopped) = self.step() {
                break;
            }
        }
        Status::Cut
    }

    /// Enter one line (or INPUT reply) and run until the interpreter stops.
    pub fn enter(&mut self, line: &str) -> Status {
        self.rt.enter(line);
        self.drain()
    }

    pub fn enter_all(&mut self, lines: &[&str]) -> Status {
        let mut st = Status::Stopped;
        for l in lines {
            st = self.enter(l);
        }
        st
    }

    pub fn take(&mut self) -> Vec<Ev> {
        std::mem::take(&mut self.ev)
    }

    pub fn listing_text(&self) -> Vec<String> {
        self.rt
            .get_listing()
            .lines()
            .map(|l| l.to_string())
            .collect()
    }
}

/// Render events as text for messages and for hashing.
pub fn render(ev: &[Ev]) -> String {
    let mut s = String::new();
    for e in ev {
        match e {
            Ev::Out(t) => s.push_str(t),
            Ev::Err(v) => {
                for e in v {
                    s.push_str(&format!("<{}>", e.raw));
                }
            }
            Ev::Prompt(p, c) => s.push_str(&format!("<INPUT:{}:{}>", p, c)),
            Ev::List(t, c) => s.push_str(&format!("<LIST:{}:{:?}>", t, c)),
            Ev::Cls => s.push_str("<CLS>"),
            Ev::Ready(f) => s.push_str(if *f { "<NL-READY>" } else { "<READY>" }),
            Ev::Inkey => s.push_str("<INKEY>"),
            Ev::Load(n) => s.push_str(&format!("<LOAD:{}>", n)),
            Ev::Run(n) => s.push_str(&format!("<RUN:{}>", n)),
            Ev::Save(n) => s.push_str(&format!("<SAVE:{}>", n)),
            Ev::Cut => s.push_str("<CUT>"),
        }
    }
    s
}

/// Render with only code and line of errors (free text and columns dropped).
pub fn render_codes(ev: &[Ev]) -> String {
    let mut s = String::new();
    for e in ev {
        match e {
            Ev::Err(v) => {
                for e in v {
                    match e.line {
                        Some(l) => s.push_str(&format!("<?{} IN {}>", e.code, l)),
                        None => s.push_str(&format!("<?{}>", e.code)),
                    }
                }
            }
            other => s.push_str(&render(std::slice::from_ref(other))),
        }
    }
    s
}
