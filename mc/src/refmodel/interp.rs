//! Reference interpreter: statement-by-statement execution of the harness AST,
//! written from the manual (src/doc/**) and the property statements. It never
//! sees the repository's lexer, parser, code generator or VM.

use super::input;
use super::print::{fmt_number, Cursor};
use super::store::Store;
use super::value::*;
use crate::gen::{Branch, Expr, LVal, PItem, Prog, Stmt};
use std::collections::{BTreeMap, VecDeque};

#[derive(Clone, Debug, PartialEq)]
pub enum REv {
    Out(String),
    Prompt(String, bool),
    Err(String, Option<u16>),
    /// compile-time errors were reported and nothing ran
    CompileErrors,
    Ready(bool),
}

#[derive(Clone, Debug, PartialEq)]
pub enum End {
    Stopped,
    Budget,
    NeedInput,
    Undefined(String),
}

#[derive(Clone, Debug)]
enum Succ {
    Node(usize),
    /// first node of the line after line index i (or the implicit END)
    AfterLine(usize),
}

#[derive(Clone, Debug)]
enum Target {
    Line(u16),
    Succ(Succ),
}

#[derive(Clone, Debug)]
enum N {
    Plain(Stmt),
    If { cond: Expr, then: Target, els: Target },
    While { cond: Expr, wend: usize },
    Wend { head: usize },
    ImplicitEnd,
}

#[derive(Clone, Debug)]
struct Node {
    line: Option<u16>,
    n: N,
    next: Succ,
}

const EOL: usize = 1 << 60;

#[derive(Clone, Debug)]
enum Frame {
    For { var: String, to: V, step: V, body: usize },
    Gosub { ret: usize },
}

pub struct Machine {
    nodes: Vec<Node>,
    prog_len: usize,
    line_nums: Vec<u16>,
    line_first: Vec<usize>,
    prog_end: usize,
    pub prog_errors: bool,
    pub direct_errors: bool,
    data: Vec<(u16, V)>,
    data_pos: usize,
    pc: usize,
    frames: Vec<Frame>,
    pub store: Store,
    fns: BTreeMap<String, (Vec<String>, Expr)>,
    scope: Option<BTreeMap<String, V>>,
    depth: usize,
    pub tron: bool,
    tr: Option<u16>,
    pub cur: Cursor,
    pub ev: Vec<REv>,
    pub steps: u64,
    pub branches: u64,
    last_line_has_code: bool,
    listing: Vec<String>,
    pub state_hashes: std::collections::HashSet<u64>,
}

struct Flat<'a> {
    nodes: &'a mut Vec<Node>,
    whiles: Vec<usize>,
    unmatched: bool,
}

impl<'a> Flat<'a> {
    fn list(&mut self, stmts: &[Stmt], line: Option<u16>, li: usize) {
        for (i, s) in stmts.iter().enumerate() {
            let last = i + 1 == stmts.len();
            let idx = self.nodes.len();
            let next = if last { Succ::AfterLine(li) } else { Succ::Node(0) };
            match s {
                Stmt::If(c, t, e) => {
                    self.nodes.push(Node { line, n: N::ImplicitEnd, next: Succ::AfterLine(li) });
                    let then = self.branch(Some(t), line, li);
                    let els = self.branch(e.as_ref(), line, li);
                    self.nodes[idx].n = N::If { cond: c.clone(), then, els };
                }
                Stmt::IfGoto(c, n, e) => {
                    self.nodes.push(Node { line, n: N::ImplicitEnd, next: Succ::AfterLine(li) });
                    let els = self.branch(e.as_ref(), line, li);
                    self.nodes[idx].n = N::If { cond: c.clone(), then: Target::Line(*n), els };
                }
                Stmt::While(c) => {
                    self.nodes.push(Node { line, n: N::While { cond: c.clone(), wend: usize::MAX }, next });
                    self.whiles.push(idx);
                }
                Stmt::Wend => {
                    match self.whiles.pop() {
                        Some(h) => {
                            self.nodes.push(Node { line, n: N::Wend { head: h }, next });
                            if let N::While { wend, .. } = &mut self.nodes[h].n {
                                *wend = idx;
                            }
                        }
                        None => {
                            self.unmatched = true;
                            self.nodes.push(Node { line, n: N::Wend { head: usize::MAX }, next });
                        }
                    }
                }
                other => self.nodes.push(Node { line, n: N::Plain(other.clone()), next }),
            }
            if !last {
                let nx = self.nodes.len();
                self.nodes[idx].next = Succ::Node(nx);
                // for If nodes `next` is unused (an IF is last on its list)
            }
        }
    }

    fn branch(&mut self, b: Option<&Branch>, line: Option<u16>, li: usize) -> Target {
        match b {
            None => Target::Succ(Succ::AfterLine(li)),
            Some(Branch::Line(n)) => Target::Line(*n),
            Some(Branch::Stmts(v)) => {
                if v.is_empty() {
                    return Target::Succ(Succ::AfterLine(li));
                }
                let start = self.nodes.len();
                self.list(v, line, li);
                Target::Succ(Succ::Node(start))
            }
        }
    }
}

fn has_code(s: &Stmt) -> bool {
    !matches!(s, Stmt::Rem(_) | Stmt::Empty | Stmt::Data(_))
}

fn collect_targets(stmts: &[Stmt], out: &mut Vec<u16>) {
    for s in stmts {
        match s {
            Stmt::Goto(n) | Stmt::Gosub(n) => out.push(*n),
            Stmt::OnGoto(_, v) | Stmt::OnGosub(_, v) => out.extend(v.iter()),
            Stmt::Restore(Some(n)) => out.push(*n),
            Stmt::If(_, t, e) => {
                for b in [Some(t), e.as_ref()].into_iter().flatten() {
                    match b {
                        Branch::Line(n) => out.push(*n),
                        Branch::Stmts(v) => collect_targets(v, out),
                    }
                }
            }
            Stmt::IfGoto(_, n, e) => {
                out.push(*n);
                if let Some(b) = e {
                    match b {
                        Branch::Line(n) => out.push(*n),
                        Branch::Stmts(v) => collect_targets(v, out),
                    }
                }
            }
            _ => {}
        }
    }
}

fn collect_data(stmts: &[Stmt], line: u16, out: &mut Vec<(u16, V)>, bad: &mut bool) {
    for s in stmts {
        match s {
            Stmt::Data(v) => {
                for e in v {
                    match e {
                        Expr::Lit(val, _) => out.push((line, val.clone())),
                        Expr::Neg(inner) => match &**inner {
                            Expr::Lit(val, _) => match neg(val) {
                                Ok(n) => out.push((line, n)),
                                Err(_) => *bad = true,
                            },
                            _ => *bad = true,
                        },
                        _ => *bad = true,
                    }
                }
            }
            Stmt::If(_, t, e) => {
                for b in [Some(t), e.as_ref()].into_iter().flatten() {
                    if let Branch::Stmts(v) = b {
                        collect_data(v, line, out, bad);
                    }
                }
            }
            Stmt::IfGoto(_, _, Some(Branch::Stmts(v))) => collect_data(v, line, out, bad),
            _ => {}
        }
    }
}

impl Machine {
    pub fn new(prog: &Prog) -> Machine {
        let mut nodes = vec![];
        let mut line_first = vec![];
        let mut line_nums = vec![];
        let mut data = vec![];
        let mut bad = false;
        let mut f = Flat { nodes: &mut nodes, whiles: vec![], unmatched: false };
        for (li, l) in prog.lines.iter().enumerate() {
            line_first.push(f.nodes.len());
            line_nums.push(l.num);
            f.list(&l.stmts, Some(l.num), li);
            collect_data(&l.stmts, l.num, &mut data, &mut bad);
        }
        let unmatched = f.unmatched || !f.whiles.is_empty();
        let prog_end = nodes.len();
        nodes.push(Node { line: line_nums.last().cloned(), n: N::ImplicitEnd, next: Succ::Node(prog_end) });
        let mut targets = vec![];
        for l in &prog.lines {
            collect_targets(&l.stmts, &mut targets);
        }
        let undefined = targets.iter().any(|t| !line_nums.contains(t));
        let last_line_has_code = prog.lines.last().map(|l| l.stmts.iter().any(has_code)).unwrap_or(true);
        Machine {
            prog_len: nodes.len(),
            nodes,
            line_nums,
            line_first,
            prog_end,
            prog_errors: unmatched || undefined || bad,
            direct_errors: false,
            data,
            data_pos: 0,
            pc: 0,
            frames: vec![],
            store: Store::default(),
            fns: BTreeMap::new(),
            scope: None,
            depth: 0,
            tron: false,
            tr: None,
            cur: Cursor::default(),
            ev: vec![],
            steps: 0,
            branches: 0,
            last_line_has_code,
            listing: prog.render(),
            state_hashes: Default::default(),
        }
    }

    fn out(&mut self, s: &str) {
        if s.is_empty() {
            return;
        }
        self.cur.emit(s);
        if let Some(REv::Out(prev)) = self.ev.last_mut() {
            prev.push_str(s);
        } else {
            self.ev.push(REv::Out(s.to_string()));
        }
    }

    fn resolve(&self, s: &Succ) -> usize {
        match s {
            Succ::Node(i) => *i,
            Succ::AfterLine(li) => {
                if *li == usize::MAX {
                    // direct line: its own END follows it
                    self.nodes.len() - 1
                } else if li + 1 < self.line_first.len() {
                    self.line_first[li + 1]
                } else {
                    self.prog_end
                }
            }
        }
    }

    fn line_target(&self, n: u16) -> Option<usize> {
        self.line_nums.iter().position(|x| *x == n).map(|i| self.line_first[i])
    }

    pub fn clear(&mut self) {
        self.store.clear();
        self.frames.clear();
        self.fns.clear();
        self.data_pos = 0;
    }

    // ---------------------------------------------------------------- expressions

    pub fn eval(&mut self, e: &Expr) -> Result<V, E> {
        match e {
            Expr::Lit(v, _) => Ok(v.clone()),
            Expr::Paren(e) | Expr::Plus(e) => self.eval(e),
            Expr::Var(n) => {
                if let Some(sc) = &self.scope {
                    if let Some(v) = sc.get(n) {
                        return Ok(v.clone());
                    }
                }
                if self.store.open.contains_key(n) {
                    return Err("#undefined: value after DEFtype");
                }
                Ok(self.store.get(n))
            }
            Expr::Arr(n, subs) => {
                let mut vs = vec![];
                for s in subs {
                    vs.push(self.eval(s)?);
                }
                if self.store.open.contains_key(&format!("{}()", n)) {
                    return Err("#undefined: value after DEFtype");
                }
                self.store.get_arr(n, &vs)
            }
            Expr::Call(n, args) => {
                let mut vs = vec![];
                for a in args {
                    vs.push(self.eval(a)?);
                }
                super::funcs::call(n, &vs, self.cur.col)
            }
            Expr::Fn(n, args) => {
                let mut vs = vec![];
                for a in args {
                    vs.push(self.eval(a)?);
                }
                if self.tron {
                    return Err("#undefined: user function call while TRON");
                }
                let (params, body) = match self.fns.get(n) {
                    Some(f) => f.clone(),
                    None => return Err(UNDEF_FN),
                };
                if params.len() != vs.len() {
                    return Err(ILLEGAL);
                }
                if self.depth > 64 {
                    return Err("#runaway-recursion");
                }
                let mut sc = BTreeMap::new();
                for (p, v) in params.iter().zip(vs.iter()) {
                    let t = self.store.type_of(p);
                    sc.insert(p.clone(), v.convert(t)?);
                }
                let saved = std::mem::replace(&mut self.scope, Some(sc));
                self.depth += 1;
                let r = self.eval(&body);
                self.depth -= 1;
                self.scope = saved;
                r
            }
            Expr::Bin(op, a, b) => {
                let x = self.eval(a)?;
                let y = self.eval(b)?;
                binop(*op, &x, &y)
            }
            Expr::Neg(a) => {
                let x = self.eval(a)?;
                neg(&x)
            }
            Expr::Not(a) => {
                let x = self.eval(a)?;
                not(&x)
            }
        }
    }

    fn assign(&mut self, l: &LVal, v: &V) -> Result<(), E> {
        match l {
            LVal::Var(n) => self.store.set(n, v),
            LVal::Arr(n, subs) => {
                let mut vs = vec![];
                for s in subs {
                    vs.push(self.eval(s)?);
                }
                self.store.set_arr(n, &vs, v)
            }
        }
    }

    fn read_lval(&mut self, l: &LVal) -> Result<V, E> {
        match l {
            LVal::Var(n) => self.eval(&Expr::Var(n.clone())),
            LVal::Arr(n, s) => self.eval(&Expr::Arr(n.clone(), s.clone())),
        }
    }

    // ---------------------------------------------------------------- execution

    /// Enter a direct statement list (tr is reset, as for every entered line).
    pub fn direct(&mut self, stmts: &[Stmt], replies: &mut VecDeque<String>, budget: u64) -> End {
        self.nodes.truncate(self.prog_len);
        let entry = self.nodes.len();
        let mut f = Flat { nodes: &mut self.nodes, whiles: vec![], unmatched: false };
        f.list(stmts, None, usize::MAX);
        let unmatched = f.unmatched || !f.whiles.is_empty();
        let endn = self.nodes.len();
        self.nodes.push(Node { line: None, n: N::ImplicitEnd, next: Succ::Node(endn) });
        let mut targets = vec![];
        collect_targets(stmts, &mut targets);
        let mut d = vec![];
        let mut bad = false;
        collect_data(stmts, 0, &mut d, &mut bad);
        let other_errors = unmatched || targets.iter().any(|t| !self.line_nums.contains(t));
        self.direct_errors = other_errors || !d.is_empty() || bad;
        self.tr = None;
        self.pc = entry;
        if !d.is_empty() || bad {
            // DATA is illegal in a direct line; together with other compile errors the report is not defined
            if other_errors {
                return End::Undefined("direct line with DATA and another compile error".into());
            }
            self.ev.push(REv::Err(ILLEGAL_DIRECT.to_string(), None));
            return self.stop();
        }
        if self.direct_errors {
            self.ev.push(REv::CompileErrors);
            return self.stop();
        }
        self.resume(replies, budget)
    }

    /// RUN [n]: CLEAR then GOTO (as a direct line).
    pub fn run(&mut self, start: Option<u16>, replies: &mut VecDeque<String>, budget: u64) -> End {
        self.nodes.truncate(self.prog_len);
        let endn = self.nodes.len();
        self.nodes.push(Node { line: None, n: N::ImplicitEnd, next: Succ::Node(endn) });
        self.tr = None;
        self.direct_errors = false;
        if let Some(n) = start {
            if !self.line_nums.contains(&n) {
                self.direct_errors = true;
                self.ev.push(REv::CompileErrors);
                return self.stop();
            }
        }
        self.clear();
        if self.prog_errors {
            self.ev.push(REv::CompileErrors);
            return self.stop();
        }
        self.pc = match start {
            Some(n) => self.line_target(n).unwrap(),
            None => 0,
        };
        self.resume(replies, budget)
    }

    fn stop(&mut self) -> End {
        let forced = self.cur.col > 0;
        self.cur.col = 0;
        self.ev.push(REv::Ready(forced));
        End::Stopped
    }

    fn error(&mut self, code: E, line: Option<u16>) -> End {
        if code.starts_with('#') {
            return End::Undefined(code.trim_start_matches('#').to_string());
        }
        if self.cur.col > 0 {
            self.out("\n");
        }
        self.ev.push(REv::Err(code.to_string(), line));
        self.stop()
    }

    fn jump_line(&mut self, n: u16, from_direct: bool) -> Result<usize, End> {
        match self.line_target(n) {
            Some(t) => {
                if self.prog_errors {
                    // jumping into a program with compile errors reports them
                    let _ = from_direct;
                    self.ev.push(REv::CompileErrors);
                    return Err(self.stop());
                }
                Ok(t)
            }
            None => Err(End::Undefined("jump to a missing line survived the link check".into())),
        }
    }

    pub fn resume(&mut self, replies: &mut VecDeque<String>, budget: u64) -> End {
        let mut left = budget;
        loop {
            if left == 0 {
                return End::Budget;
            }
            left -= 1;
            self.steps += 1;
            let node = self.nodes[self.pc].clone();
            let codeless = matches!(&node.n, N::Plain(Stmt::Rem(_)) | N::Plain(Stmt::Empty) | N::Plain(Stmt::Data(_)));
            if self.tron && !codeless && node.line != self.tr {
                self.tr = node.line;
                if let Some(n) = node.line {
                    if matches!(node.n, N::ImplicitEnd) && !self.last_line_has_code {
                        return End::Undefined("trace of a trailing line without code".into());
                    }
                    self.out(&format!("[{}]", n));
                }
            }
            let in_direct = node.line.is_none();
            // a frame pushed by the last statement of a line resumes "at the end of that line"
            let eol = matches!(node.next, Succ::AfterLine(_));
            let mark = |n: usize| if eol { n | EOL } else { n };
            let mut next = self.resolve(&node.next);
            macro_rules! tryx {
                ($e:expr) => {
                    match $e {
                        Ok(v) => v,
                        Err(code) => return self.error(code, node.line),
                    }
                };
            }
            match &node.n {
                N::ImplicitEnd => return self.stop(),
                N::If { cond, then, els } => {
                    let c = tryx!(self.eval(cond));
                    let z = tryx!(c.is_zero());
                    self.branches += 1;
                    let t = if z { els } else { then };
                    next = match t {
                        Target::Line(n) => match self.jump_line(*n, in_direct) {
                            Ok(t) => t,
                            Err(e) => return e,
                        },
                        Target::Succ(s) => self.resolve(s),
                    };
                }
                N::While { cond, wend } => {
                    let c = tryx!(self.eval(cond));
                    if tryx!(c.is_zero()) {
                        let w = self.nodes[*wend].clone();
                        // the loop is left behind a WEND that ends a THEN / ELSE part of another line:
                        // whether that line counts as entered (traced) is not defined
                        if self.tron && w.line != node.line {
                            if let Succ::AfterLine(li) = w.next {
                                let first = if li < self.line_first.len() { self.line_first[li] } else { self.prog_len };
                                if (first..*wend).any(|k| matches!(self.nodes[k].n, N::If { .. })) {
                                    return End::Undefined("WHILE left behind a WEND inside an IF of another line under TRON".into());
                                }
                            }
                        }
                        next = self.resolve(&w.next);
                    }
                    self.branches += 1;
                }
                N::Wend { head } => {
                    next = *head;
                }
                N::Plain(s) => match s {
                    Stmt::Rem(_) | Stmt::Empty | Stmt::Data(_) => {}
                    Stmt::Print(items) => {
                        let mut newline = true;
                        for it in items {
                            match it {
                                PItem::Semi => newline = false,
                                PItem::Comma => {
                                    newline = false;
                                    let pad = 14 - self.cur.col % 14;
                                    self.out(&" ".repeat(pad));
                                }
                                PItem::E(e) => {
                                    newline = true;
                                    let v = tryx!(self.eval(e));
                                    match v {
                                        V::Str(s) => {
                                            let t: String = s.iter().collect();
                                            self.out(&t);
                                        }
                                        num => match fmt_number(&num) {
                                            Some(t) => self.out(&format!("{} ", t)),
                                            None => return End::Undefined("number notation".into()),
                                        },
                                    }
                                }
                            }
                        }
                        if newline {
                            self.out("\n");
                        }
                    }
                    Stmt::Let(l, e) => {
                        let v = tryx!(self.eval(e));
                        tryx!(self.assign(l, &v));
                    }
                    Stmt::MidAssign(l, p, n, e) => {
                        let orig = tryx!(self.read_lval(l));
                        let ins = tryx!(self.eval(e));
                        let len = match n {
                            Some(n) => Some(tryx!(self.eval(n))),
                            None => None,
                        };
                        let pos = tryx!(self.eval(p));
                        let (o, i) = match (orig, ins) {
                            (V::Str(o), V::Str(i)) => (o, i),
                            _ => return self.error(TYPE_MISMATCH, node.line),
                        };
                        let posn = tryx!(pos.as_f64()).floor();
                        let lenn = match &len {
                            Some(v) => tryx!(v.as_f64()).floor(),
                            None => 32767.0,
                        };
                        if posn < 1.0 || lenn < 0.0 {
                            return self.error(super::funcs::SOME_ERROR, node.line);
                        }
                        let mut r = o.clone();
                        let mut k = 0usize;
                        let start = posn as usize - 1;
                        while start + k < r.len() && k < i.len() && (k as f64) < lenn {
                            r[start + k] = i[k];
                            k += 1;
                        }
                        tryx!(self.assign(l, &V::Str(r)));
                    }
                    Stmt::Goto(n) => {
                        next = match self.jump_line(*n, in_direct) {
                            Ok(t) => t,
                            Err(e) => return e,
                        };
                    }
                    Stmt::Gosub(n) => {
                        let t = match self.jump_line(*n, in_direct) {
                            Ok(t) => t,
                            Err(e) => return e,
                        };
                        self.frames.push(Frame::Gosub { ret: mark(next) });
                        next = t;
                    }
                    Stmt::Return => loop {
                        match self.frames.pop() {
                            Some(Frame::Gosub { ret }) => {
                                if ret & EOL != 0 && self.tron {
                                    return End::Undefined("return to the end of a line under TRON".into());
                                }
                                next = ret & !EOL;
                                break;
                            }
                            Some(Frame::For { .. }) => continue,
                            None => return self.error(RETURN_WO_GOSUB, node.line),
                        }
                    },
                    Stmt::OnGoto(e, list) | Stmt::OnGosub(e, list) => {
                        let v = tryx!(self.eval(e));
                        let f = tryx!(v.as_f64());
                        if f != f.floor() {
                            return End::Undefined("ON selector not Integer-valued".into());
                        }
                        let sel = tryx!(v.to_int());
                        if sel < 0 {
                            return self.error(ILLEGAL, node.line);
                        }
                        self.branches += 1;
                        if sel >= 1 && (sel as usize) <= list.len() {
                            let t = match self.jump_line(list[sel as usize - 1], in_direct) {
                                Ok(t) => t,
                                Err(e) => return e,
                            };
                            if matches!(s, Stmt::OnGosub(..)) {
                                self.frames.push(Frame::Gosub { ret: mark(next) });
                            }
                            next = t;
                        }
                    }
                    Stmt::For(var, a, b, st) => {
                        let from = tryx!(self.eval(a));
                        tryx!(self.store.set(var, &from));
                        let to = tryx!(self.eval(b));
                        let step = match st {
                            Some(e) => tryx!(self.eval(e)),
                            None => V::Int(1),
                        };
                        if matches!(to, V::Str(_)) || matches!(step, V::Str(_)) {
                            return End::Undefined("string FOR bound".into());
                        }
                        self.frames.push(Frame::For { var: var.clone(), to, step, body: mark(next) });
                    }
                    Stmt::Next(vars) => {
                        let names: Vec<Option<&String>> =
                            if vars.is_empty() { vec![None] } else { vars.iter().map(Some).collect() };
                        let mut looped = false;
                        for name in names {
                            // one name at a time
                            let (var, to, step, body) = loop {
                                match self.frames.pop() {
                                    Some(Frame::For { var, to, step, body }) => {
                                        if name.map(|n| *n == var).unwrap_or(true) {
                                            break (var, to, step, body);
                                        }
                                    }
                                    Some(Frame::Gosub { .. }) | None => {
                                        return self.error(NEXT_WO_FOR, node.line);
                                    }
                                }
                            };
                            let cur = self.store.get(&var);
                            let nv = tryx!(binop(BinOp::Add, &cur, &step));
                            tryx!(self.store.set(&var, &nv));
                            let nv = self.store.get(&var);
                            let neg_step = tryx!(step.as_f64()) < 0.0;
                            let done = if neg_step {
                                tryx!(binop(BinOp::Lt, &nv, &to))
                            } else {
                                tryx!(binop(BinOp::Lt, &to, &nv))
                            };
                            self.branches += 1;
                            if done == V::Int(0) {
                                self.frames.push(Frame::For { var, to, step, body });
                                if body & EOL != 0 && self.tron {
                                    return End::Undefined("loop back to the end of a line under TRON".into());
                                }
                                next = body & !EOL;
                                looped = true;
                                break;
                            }
                        }
                        let _ = looped;
                    }
                    Stmt::End => return self.stop(),
                    Stmt::Stop => {
                        if self.cur.col > 0 {
                            self.out("\n");
                        }
                        self.ev.push(REv::Err("BREAK".into(), node.line));
                        self.pc = next;
                        return self.stop();
                    }
                    Stmt::Tron => {
                        self.tron = true;
                        self.tr = node.line;
                    }
                    Stmt::Troff => self.tron = false,
                    Stmt::Clear => self.clear(),
                    Stmt::Input(prompt, vars) | Stmt::InputNoCaps(prompt, vars) => {
                        let p = format!("{}? ", prompt.clone().unwrap_or_default());
                        let caps = matches!(s, Stmt::Input(..));
                        loop {
                            self.ev.push(REv::Prompt(p.clone(), caps));
                            self.cur.col = 0;
                            let reply = match replies.pop_front() {
                                Some(r) => r,
                                None => return End::NeedInput,
                            };
                            if reply.len() > 1024 {
                                // longer than an input line can be
                                self.ev.push(REv::Err("REDO FROM START".into(), None));
                                continue;
                            }
                            let fields = match input::fields_for(&reply, vars.len()) {
                                Some(f) => f,
                                None => {
                                    self.ev.push(REv::Err("REDO FROM START".into(), None));
                                    continue;
                                }
                            };
                            let mut ok = true;
                            for (l, f) in vars.iter().zip(fields.iter()) {
                                let t = self.store.type_of(l.name());
                                let r = match input::field_value(f, t) {
                                    Some(v) => self.assign(l, &v),
                                    None => Err("redo"),
                                };
                                if let Err(code) = r {
                                    if code.starts_with('#') {
                                        return End::Undefined(code.to_string());
                                    }
                                    ok = false;
                                    break;
                                }
                            }
                            if ok {
                                break;
                            }
                            self.ev.push(REv::Err("REDO FROM START".into(), None));
                        }
                    }
                    Stmt::Read(vars) => {
                        for l in vars {
                            if self.data_pos >= self.data.len() {
                                return self.error(OUT_OF_DATA, node.line);
                            }
                            let v = self.data[self.data_pos].1.clone();
                            self.data_pos += 1;
                            tryx!(self.assign(l, &v));
                        }
                    }
                    Stmt::Restore(n) => {
                        self.data_pos = match n {
                            None => 0,
                            Some(n) => self.data.iter().position(|(l, _)| l >= n).unwrap_or(self.data.len()),
                        };
                    }
                    Stmt::Def(name, params, body) => {
                        if in_direct {
                            return self.error(ILLEGAL_DIRECT, None);
                        }
                        self.fns.insert(name.clone(), (params.clone(), body.clone()));
                    }
                    Stmt::Dim(list) => {
                        for (name, bounds) in list {
                            let mut vs = vec![];
                            for b in bounds {
                                vs.push(tryx!(self.eval(b)));
                            }
                            tryx!(self.store.dim(name, &vs));
                        }
                    }
                    Stmt::Erase(list) => {
                        for n in list {
                            tryx!(self.store.erase(n));
                        }
                    }
                    Stmt::Swap(a, b) => {
                        let x = tryx!(self.read_lval(a));
                        let y = tryx!(self.read_lval(b));
                        if x.ty() != y.ty() {
                            return self.error(TYPE_MISMATCH, node.line);
                        }
                        tryx!(self.assign(a, &y));
                        tryx!(self.assign(b, &x));
                    }
                    Stmt::DefType(w, a, b) => {
                        let t = match *w {
                            "DEFINT" => Ty::Int,
                            "DEFSNG" => Ty::Sng,
                            "DEFDBL" => Ty::Dbl,
                            _ => Ty::Str,
                        };
                        self.store.deftype(t, *a, *b);
                    }
                    Stmt::Raw(_) => return End::Undefined("raw statement".into()),
                    Stmt::Cls => {
                        // the screen is cleared: the cursor is at column 0
                        self.ev.push(REv::Out("\u{1}CLS\u{2}".into()));
                        self.cur.col = 0;
                    }
                    Stmt::List => {
                        // every listed line ends with a newline
                        for l in self.listing.clone() {
                            self.ev.push(REv::Out(format!("\u{1}LIST:{}\u{2}", l)));
                            self.cur.col = 0;
                        }
                    }
                    Stmt::If(..) | Stmt::IfGoto(..) | Stmt::While(_) | Stmt::Wend => unreachable!(),
                },
            }
            self.pc = next;
        }
    }

    /// hash of the control state (for the states-visited statistic)
    pub fn state_hash(&self) -> u64 {
        crate::engine::hash64(&(
            self.pc,
            self.frames.len(),
            format!("{:?}", self.store.vars),
            self.tron,
            self.cur.col,
        ))
    }
}
