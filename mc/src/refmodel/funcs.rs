//! Reference built-in functions (manual chapter 3), strings as Vec<char>.

use super::print::fmt_number;
use super::value::*;

fn s_arg(v: &V) -> Result<&Vec<char>, E> {
    match v {
        V::Str(s) => Ok(s),
        _ => Err(TYPE_MISMATCH),
    }
}

/// Some BASIC error is required, which one the manual does not say.
pub const SOME_ERROR: E = "#some-error";

/// count / position argument: floor; negative or huge -> out of domain
fn n_arg(v: &V) -> Result<i64, E> {
    let f = v.as_f64()?;
    if f.is_nan() {
        return Err(SOME_ERROR);
    }
    let fl = f.floor();
    if fl < -32768.0 || fl > 32767.0 {
        // positions and counts beyond the Integer range: an error or a
        // saturated result are both defensible; the manual is silent
        return Err("#undefined: position or count beyond the Integer range");
    }
    Ok(fl as i64)
}

/// character code argument: floor; anything that is not a scalar value is out of domain
fn c_arg(v: &V) -> Result<i64, E> {
    let f = v.as_f64()?;
    if f.is_nan() || f.abs() > 1e15 {
        return Err(SOME_ERROR);
    }
    Ok(f.floor() as i64)
}

fn float1(v: &V, f32f: fn(f32) -> f32, f64f: fn(f64) -> f64) -> Result<V, E> {
    match v {
        V::Int(n) => Ok(V::Sng(f64f(*n as f64) as f32)),
        V::Sng(n) => {
            let _ = f32f;
            Ok(V::Sng(f64f(*n as f64) as f32))
        }
        V::Dbl(n) => Ok(V::Dbl(f64f(*n))),
        V::Str(_) => Err(TYPE_MISMATCH),
    }
}

pub fn is_transcendental(name: &str) -> bool {
    matches!(name, "ATN" | "COS" | "SIN" | "TAN" | "EXP" | "LOG")
}

/// parse the longest numeric prefix per the documented grammar
/// [+-]d*[.d*][(E|D)[+-]d+], &o.., &Hh..
pub fn parse_number(s: &[char], whole: bool) -> Option<f64> {
    let mut i = 0;
    let n = s.len();
    if n == 0 {
        return None;
    }
    if s[0] == '&' {
        let hex = n > 1 && (s[1] == 'H' || s[1] == 'h');
        let start = if hex { 2 } else { 1 };
        let radix = if hex { 16 } else { 8 };
        let mut j = start;
        let mut val: i64 = 0;
        while j < n && s[j].is_digit(radix) {
            val = val * radix as i64 + s[j].to_digit(radix).unwrap() as i64;
            if val > 0xFFFF {
                return None;
            }
            j += 1;
        }
        if j == start || (whole && j != n) {
            return None;
        }
        // 16-bit two's complement as literals do? literals overflow above 32767
        if val > 32767 {
            return None;
        }
        return Some(val as f64);
    }
    let mut t = String::new();
    if i < n && (s[i] == '+' || s[i] == '-') {
        t.push(s[i]);
        i += 1;
    }
    let mut digits = 0;
    while i < n && s[i].is_ascii_digit() {
        t.push(s[i]);
        i += 1;
        digits += 1;
    }
    if i < n && s[i] == '.' {
        t.push('.');
        i += 1;
        while i < n && s[i].is_ascii_digit() {
            t.push(s[i]);
            i += 1;
            digits += 1;
        }
    }
    if digits == 0 {
        return None;
    }
    let mut best = (t.clone(), i);
    if i < n && matches!(s[i], 'E' | 'e' | 'D' | 'd') {
        let mut u = t.clone();
        u.push('E');
        let mut j = i + 1;
        if j < n && (s[j] == '+' || s[j] == '-') {
            u.push(s[j]);
            j += 1;
        }
        let mut ed = 0;
        while j < n && s[j].is_ascii_digit() {
            u.push(s[j]);
            j += 1;
            ed += 1;
        }
        if ed > 0 {
            best = (u, j);
        }
    }
    if whole && best.1 != n {
        return None;
    }
    let mut txt = best.0;
    if txt.ends_with('.') {
        txt.push('0');
    }
    if txt.starts_with('.') || txt.starts_with("+.") || txt.starts_with("-.") {
        txt = txt.replacen('.', "0.", 1);
    }
    txt.parse::<f64>().ok()
}

pub fn call(name: &str, args: &[V], col: usize) -> Result<V, E> {
    let a = |i: usize| -> Result<&V, E> { args.get(i).ok_or(ILLEGAL) };
    match name {
        "ABS" => match a(0)? {
            V::Int(n) => {
                if *n == i16::MIN {
                    Err(OVERFLOW)
                } else {
                    Ok(V::Int(n.abs()))
                }
            }
            V::Sng(n) => Ok(V::Sng(n.abs())),
            V::Dbl(n) => Ok(V::Dbl(n.abs())),
            V::Str(_) => Err(TYPE_MISMATCH),
        },
        "ASC" => {
            let s = s_arg(a(0)?)?;
            match s.first() {
                None => Err(ILLEGAL),
                Some(c) => {
                    let n = *c as u32;
                    if n <= 32767 {
                        Ok(V::Int(n as i16))
                    } else {
                        Ok(V::Dbl(n as f64))
                    }
                }
            }
        }
        "ATN" => float1(a(0)?, f32::atan, f64::atan),
        "COS" => float1(a(0)?, f32::cos, f64::cos),
        "SIN" => float1(a(0)?, f32::sin, f64::sin),
        "TAN" => float1(a(0)?, f32::tan, f64::tan),
        "EXP" => float1(a(0)?, f32::exp, f64::exp),
        "LOG" => float1(a(0)?, f32::ln, f64::ln),
        "SQR" => match a(0)? {
            V::Int(n) => Ok(V::Sng((*n as f32).sqrt())),
            V::Sng(n) => Ok(V::Sng(n.sqrt())),
            V::Dbl(n) => Ok(V::Dbl(n.sqrt())),
            V::Str(_) => Err(TYPE_MISMATCH),
        },
        "CDBL" => a(0)?.convert(Ty::Dbl),
        "CSNG" => a(0)?.convert(Ty::Sng),
        "CINT" => a(0)?.convert(Ty::Int),
        "FIX" => match a(0)? {
            V::Int(n) => Ok(V::Int(*n)),
            V::Sng(n) => Ok(V::Sng(n.trunc())),
            V::Dbl(n) => Ok(V::Dbl(n.trunc())),
            V::Str(_) => Err(TYPE_MISMATCH),
        },
        "INT" => match a(0)? {
            V::Int(n) => Ok(V::Int(*n)),
            V::Sng(n) => Ok(V::Sng(n.floor())),
            V::Dbl(n) => Ok(V::Dbl(n.floor())),
            V::Str(_) => Err(TYPE_MISMATCH),
        },
        "SGN" => {
            let f = a(0)?.as_f64()?;
            Ok(V::Int(if f == 0.0 { 0 } else if f < 0.0 { -1 } else { 1 }))
        }
        "CHR$" => {
            let n = c_arg(a(0)?)?;
            if n < 0 || n > 0x10FFFF {
                return Err(SOME_ERROR);
            }
            match char::from_u32(n as u32) {
                Some(c) => Ok(V::Str(vec![c])),
                None => Err(SOME_ERROR),
            }
        }
        "HEX$" => Ok(V::s(&format!("{:X}", a(0)?.to_int()? as u16))),
        "OCT$" => Ok(V::s(&format!("{:o}", a(0)?.to_int()? as u16))),
        "LEN" => Ok(V::Int(s_arg(a(0)?)?.len() as i16)),
        "LEFT$" => {
            let s = s_arg(a(0)?)?;
            let n = n_arg(a(1)?)?;
            if n < 0 {
                return Err(SOME_ERROR);
            }
            Ok(V::Str(s.iter().take(n as usize).cloned().collect()))
        }
        "RIGHT$" => {
            let s = s_arg(a(0)?)?;
            let n = n_arg(a(1)?)?;
            if n < 0 {
                return Err(SOME_ERROR);
            }
            let k = (n as usize).min(s.len());
            Ok(V::Str(s[s.len() - k..].to_vec()))
        }
        "MID$" => {
            let s = s_arg(a(0)?)?;
            let p = n_arg(a(1)?)?;
            if p < 1 {
                return Err(SOME_ERROR);
            }
            let len = match args.get(2) {
                Some(v) => {
                    let l = n_arg(v)?;
                    if l < 0 {
                        return Err(SOME_ERROR);
                    }
                    l as usize
                }
                None => usize::MAX,
            };
            let start = (p as usize - 1).min(s.len());
            Ok(V::Str(s[start..].iter().take(len).cloned().collect()))
        }
        "INSTR" => {
            let (start, s, pat) = if args.len() == 3 {
                (n_arg(a(0)?)?, s_arg(a(1)?)?, s_arg(a(2)?)?)
            } else {
                (1, s_arg(a(0)?)?, s_arg(a(1)?)?)
            };
            if start < 1 {
                return Err(SOME_ERROR);
            }
            let start = start as usize;
            if start > s.len() {
                return Ok(V::Int(0));
            }
            if pat.is_empty() {
                return Ok(V::Int(start as i16));
            }
            let mut i = start - 1;
            while i + pat.len() <= s.len() {
                if s[i..i + pat.len()] == pat[..] {
                    return Ok(V::Int((i + 1) as i16));
                }
                i += 1;
            }
            Ok(V::Int(0))
        }
        "SPC" => {
            let n = n_arg(a(0)?)?;
            if n < 0 || n > 255 {
                return Err(SOME_ERROR);
            }
            Ok(V::Str(vec![' '; n as usize]))
        }
        "STRING$" => {
            let n = n_arg(a(0)?)?;
            if n < 0 || n > 255 {
                return Err(SOME_ERROR);
            }
            let c = match a(1)? {
                V::Str(s) => match s.first() {
                    Some(c) => *c,
                    None => return Err(ILLEGAL),
                },
                v => {
                    let k = c_arg(v)?;
                    if k < 0 || k > 0x10FFFF {
                        return Err(SOME_ERROR);
                    }
                    char::from_u32(k as u32).ok_or(SOME_ERROR)?
                }
            };
            Ok(V::Str(vec![c; n as usize]))
        }
        "STR$" => match a(0)? {
            V::Str(_) => Err(TYPE_MISMATCH),
            v => match fmt_number(v) {
                Some(t) => Ok(V::s(&t)),
                None => Err("#undefined: number notation"),
            },
        },
        "VAL" => {
            let s = s_arg(a(0)?)?;
            // leading and trailing blanks are ignored; longest numeric prefix, else 0
            let t: Vec<char> = {
                let st: String = s.iter().collect();
                st.trim().chars().collect()
            };
            let mut k = t.len();
            while k > 0 {
                if let Some(v) = parse_number(&t[..k], true) {
                    return Ok(V::Dbl(v));
                }
                k -= 1;
            }
            Ok(V::Dbl(0.0))
        }
        "POS" => Ok(V::Int(col as i16)),
        "TAB" => {
            let n = a(0)?.to_int()?;
            if !(-255..=255).contains(&n) {
                return Err(SOME_ERROR);
            }
            let len = if n < 0 {
                let z = (-n) as usize;
                z - (col % z)
            } else if n as usize > col {
                n as usize - col
            } else {
                0
            };
            Ok(V::Str(vec![' '; len]))
        }
        _ => Err("#undefined: function not modelled"),
    }
}
