//! Reference number formatting oracle and cursor model.

use super::value::V;

/// Shortest decimal digits (no leading/trailing zeros) and base-10 exponent of
/// the first digit, found by search over the precision - no shortest-digits
/// algorithm is shared with the implementation.
pub fn shortest_digits(v: &V) -> Option<(String, i32)> {
    // For each precision the correctly rounded decimal and its two neighbours
    // in the last digit are tried: next to a power of two the shortest decimal
    // that reads back is not always the correctly rounded one.
    let reads_back = |cand: &str| -> bool {
        match v {
            V::Sng(x) => cand.parse::<f32>().ok() == Some(x.abs()),
            V::Dbl(x) => cand.parse::<f64>().ok() == Some(x.abs()),
            _ => false,
        }
    };
    let (ax, maxp) = match v {
        V::Sng(x) if x.is_finite() && *x != 0.0 => (x.abs() as f64, 9usize),
        V::Dbl(x) if x.is_finite() && *x != 0.0 => (x.abs(), 17usize),
        _ => return None,
    };
    for p in 0..=maxp {
        let s = match v {
            V::Sng(x) => format!("{:.*e}", p, x.abs()),
            _ => format!("{:.*e}", p, ax),
        };
        let (mant, exp) = s.split_once('e')?;
        let exp: i32 = exp.parse().ok()?;
        let digits: String = mant.chars().filter(|c| c.is_ascii_digit()).collect();
        let m: u128 = digits.parse().ok()?;
        for delta in [0i128, 1, -1] {
            let c = m as i128 + delta;
            if c <= 0 {
                continue;
            }
            let cs = c.to_string();
            if cs.len() != digits.len() {
                continue;
            }
            let cand = if cs.len() > 1 { format!("{}.{}e{}", &cs[..1], &cs[1..], exp) } else { format!("{}e{}", cs, exp) };
            if reads_back(&cand) {
                let mut d = cs.clone();
                while d.len() > 1 && d.ends_with('0') {
                    d.pop();
                }
                return Some((d, exp));
            }
        }
    }
    None
}

#[allow(dead_code)]
fn shortest_digits_rounded_only(v: &V) -> Option<(String, i32)> {
    let (text, ok): (Option<String>, bool) = match v {
        V::Sng(x) => {
            if !x.is_finite() || *x == 0.0 {
                return None;
            }
            let mut found = None;
            for p in 0..=9usize {
                let s = format!("{:.*e}", p, x.abs());
                if s.parse::<f32>().ok() == Some(x.abs()) {
                    found = Some(s);
                    break;
                }
            }
            (found, true)
        }
        V::Dbl(x) => {
            if !x.is_finite() || *x == 0.0 {
                return None;
            }
            let mut found = None;
            for p in 0..=17usize {
                let s = format!("{:.*e}", p, x.abs());
                if s.parse::<f64>().ok() == Some(x.abs()) {
                    found = Some(s);
                    break;
                }
            }
            (found, true)
        }
        _ => (None, false),
    };
    if !ok {
        return None;
    }
    let s = text?;
    let (mant, exp) = s.split_once('e')?;
    let mut digits: String = mant.chars().filter(|c| c.is_ascii_digit()).collect();
    while digits.len() > 1 && digits.ends_with('0') {
        digits.pop();
    }
    Some((digits, exp.parse().ok()?))
}

fn positional(digits: &str, exp: i32) -> String {
    if exp >= 0 {
        let e = exp as usize;
        if digits.len() <= e + 1 {
            format!("{}{}", digits, "0".repeat(e + 1 - digits.len()))
        } else {
            format!("{}.{}", &digits[..e + 1], &digits[e + 1..])
        }
    } else {
        format!("0.{}{}", "0".repeat((-exp - 1) as usize), digits)
    }
}

/// Exact expected text of a printed number (leading blank or '-', no trailing
/// blank) when the notation is beyond doubt: Integers, zero, infinities and
/// values whose shortest positional form has at most 7 digits (Single) or 15
/// (Double). None = notation not fixed by the manual; use `check_number_text`.
pub fn fmt_number(v: &V) -> Option<String> {
    let body = match v {
        V::Int(n) => format!("{}", n),
        V::Str(_) => return None,
        V::Sng(x) if *x == 0.0 => (if x.is_sign_negative() { "-0" } else { "0" }).to_string(),
        V::Dbl(x) if *x == 0.0 => (if x.is_sign_negative() { "-0" } else { "0" }).to_string(),
        V::Sng(x) if x.is_infinite() => (if *x < 0.0 { "-inf" } else { "inf" }).to_string(),
        V::Dbl(x) if x.is_infinite() => (if *x < 0.0 { "-inf" } else { "inf" }).to_string(),
        _ => {
            let (digits, exp) = shortest_digits(v)?;
            let limit = if matches!(v, V::Sng(_)) { 7 } else { 15 };
            let count = if exp >= 0 {
                digits.len().max(exp as usize + 1)
            } else {
                digits.len() + (-exp) as usize
            };
            if count > limit {
                return None;
            }
            let neg = v.as_f64().unwrap() < 0.0;
            format!("{}{}", if neg { "-" } else { "" }, positional(&digits, exp))
        }
    };
    if body.starts_with('-') {
        Some(body)
    } else {
        Some(format!(" {}", body))
    }
}

/// Judge the printed text of a number (without the trailing blank): leading
/// blank or '-', reads back to exactly `v` in its type, with the minimal number
/// of significant digits.
pub fn check_number_text(text: &str, v: &V) -> Result<(), String> {
    let body = if let Some(b) = text.strip_prefix(' ') {
        if v.as_f64().map(|f| f < 0.0 || (f == 0.0 && f.is_sign_negative())).unwrap_or(false) {
            return Err("negative number printed without '-'".into());
        }
        b
    } else if text.starts_with('-') {
        text
    } else {
        return Err(format!("no leading blank or minus in {:?}", text));
    };
    if body.contains(' ') {
        return Err(format!("blank inside number {:?}", text));
    }
    let norm = body.replace('D', "E");
    match v {
        V::Int(n) => {
            if norm.parse::<i16>().ok() == Some(*n) && norm == n.to_string() {
                Ok(())
            } else {
                Err(format!("{:?} is not the Integer {}", text, n))
            }
        }
        V::Sng(x) => {
            let p: f32 = norm.parse().map_err(|_| format!("{:?} does not parse", text))?;
            if !(p.to_bits() == x.to_bits() || (p.is_nan() && x.is_nan())) {
                return Err(format!("{:?} reads back as {:?}, not {:?}", text, p, x));
            }
            digits_minimal(&norm, v)
        }
        V::Dbl(x) => {
            let p: f64 = norm.parse().map_err(|_| format!("{:?} does not parse", text))?;
            if !(p.to_bits() == x.to_bits() || (p.is_nan() && x.is_nan())) {
                return Err(format!("{:?} reads back as {:?}, not {:?}", text, p, x));
            }
            digits_minimal(&norm, v)
        }
        V::Str(_) => Err("not a number".into()),
    }
}

fn digits_minimal(norm: &str, v: &V) -> Result<(), String> {
    let want = match shortest_digits(v) {
        Some((d, _)) => d.len(),
        None => return Ok(()),
    };
    let mant = norm.split(|c| c == 'E' || c == 'e').next().unwrap_or("");
    let mut d: String = mant.chars().filter(|c| c.is_ascii_digit()).collect();
    d = d.trim_start_matches('0').to_string();
    d = d.trim_end_matches('0').to_string();
    let got = d.len().max(1);
    if got == want {
        Ok(())
    } else {
        Err(format!("{:?} has {} significant digits, the shortest round-trip form has {}", norm, got, want))
    }
}

/// Cursor model: column = characters since the last newline.
#[derive(Clone, Debug, Default, PartialEq)]
pub struct Cursor {
    pub col: usize,
}

impl Cursor {
    pub fn emit(&mut self, s: &str) {
        for ch in s.chars() {
            if ch == '\n' {
                self.col = 0;
            } else {
                self.col += 1;
            }
        }
    }
}
