//! Reference INPUT reply parser (manual: statements/input.rs + property C17).

use super::funcs::parse_number;
use super::value::*;

/// Split at commas outside double quotes.
pub fn split_fields(reply: &str) -> Vec<String> {
    let mut out = vec![];
    let mut cur = String::new();
    let mut inq = false;
    for ch in reply.chars() {
        match ch {
            '"' => {
                inq = !inq;
                cur.push(ch);
            }
            ',' if !inq => out.push(std::mem::take(&mut cur)),
            _ => cur.push(ch),
        }
    }
    out.push(cur);
    out
}

/// Value of one field for a target of type `t`, before conversion; None = REDO.
pub fn field_value(field: &str, t: Ty) -> Option<V> {
    let f = field.trim();
    if t == Ty::Str {
        let chars: Vec<char> = f.chars().collect();
        if chars.len() >= 2 && chars[0] == '"' && chars[chars.len() - 1] == '"' {
            return Some(V::Str(chars[1..chars.len() - 1].to_vec()));
        }
        return Some(V::Str(chars));
    }
    if f.is_empty() {
        return Some(V::Int(0));
    }
    let chars: Vec<char> = f.chars().collect();
    // optional type suffix on a typed-in number
    let body: &[char] = match chars.last() {
        Some('!') | Some('#') | Some('%') if chars.len() > 1 && chars[0] != '&' => &chars[..chars.len() - 1],
        _ => &chars[..],
    };
    parse_number(body, true).map(V::Dbl)
}

/// Fields of a reply for `n` variables; None = wrong count (REDO).
pub fn fields_for(reply: &str, n: usize) -> Option<Vec<String>> {
    if n <= 1 {
        return Some(vec![reply.to_string()]);
    }
    let f = split_fields(reply);
    if f.len() == n {
        Some(f)
    } else {
        None
    }
}
