//! Reference variable store: typed, zero-initialised, bounds-checked, unaliased.

use super::value::*;
use std::collections::BTreeMap;

#[derive(Clone, Debug, PartialEq)]
pub struct Array {
    pub dims: Vec<i16>,
    pub elems: BTreeMap<Vec<i16>, V>,
}

#[derive(Clone, Debug, PartialEq)]
pub struct Store {
    pub vars: BTreeMap<String, V>,
    pub arrays: BTreeMap<String, Array>,
    pub deftypes: [Ty; 26],
    /// unsuffixed names whose value the manual leaves open after a DEFtype
    /// that did not change their type (old value or default both accepted)
    pub open: BTreeMap<String, V>,
}

impl Default for Store {
    fn default() -> Self {
        Store {
            vars: BTreeMap::new(),
            arrays: BTreeMap::new(),
            deftypes: [Ty::Sng; 26],
            open: BTreeMap::new(),
        }
    }
}

pub fn suffix_type(name: &str) -> Option<Ty> {
    match name.chars().last() {
        Some('$') => Some(Ty::Str),
        Some('!') => Some(Ty::Sng),
        Some('#') => Some(Ty::Dbl),
        Some('%') => Some(Ty::Int),
        _ => None,
    }
}

impl Store {
    pub fn clear(&mut self) {
        *self = Store::default();
    }

    pub fn type_of(&self, name: &str) -> Ty {
        if let Some(t) = suffix_type(name) {
            return t;
        }
        // parameter names of user functions are "FNX.P": typed by P
        let base = name.rsplit('.').next().unwrap_or(name);
        let c = base.chars().next().unwrap_or('A');
        if c.is_ascii_uppercase() {
            self.deftypes[c as usize - 'A' as usize]
        } else {
            Ty::Sng
        }
    }

    pub fn get(&self, name: &str) -> V {
        match self.vars.get(name) {
            Some(v) => v.clone(),
            None => V::default_of(self.type_of(name)),
        }
    }

    pub fn set(&mut self, name: &str, v: &V) -> Result<(), E> {
        let c = v.convert(self.type_of(name))?;
        self.open.remove(name);
        self.vars.insert(name.to_string(), c);
        Ok(())
    }

    fn subs(&self, subs: &[V]) -> Result<Vec<i16>, E> {
        let mut out = vec![];
        for s in subs {
            let n = s.to_int()?;
            if n < 0 {
                return Err(SUBSCRIPT);
            }
            out.push(n);
        }
        Ok(out)
    }

    fn locate(&mut self, name: &str, subs: &[V]) -> Result<Vec<i16>, E> {
        let idx = self.subs(subs)?;
        let arr = self.arrays.entry(name.to_string()).or_insert_with(|| Array {
            dims: vec![10; idx.len()],
            elems: BTreeMap::new(),
        });
        if arr.dims.len() != idx.len() {
            return Err(SUBSCRIPT);
        }
        for (i, d) in idx.iter().zip(arr.dims.iter()) {
            if i > d {
                return Err(SUBSCRIPT);
            }
        }
        Ok(idx)
    }

    pub fn get_arr(&mut self, name: &str, subs: &[V]) -> Result<V, E> {
        let idx = self.locate(name, subs)?;
        let t = self.type_of(name);
        Ok(self.arrays[name].elems.get(&idx).cloned().unwrap_or(V::default_of(t)))
    }

    pub fn set_arr(&mut self, name: &str, subs: &[V], v: &V) -> Result<(), E> {
        let idx = self.locate(name, subs)?;
        let c = v.convert(self.type_of(name))?;
        self.arrays.get_mut(name).unwrap().elems.insert(idx, c);
        Ok(())
    }

    pub fn dim(&mut self, name: &str, bounds: &[V]) -> Result<(), E> {
        if self.arrays.contains_key(name) {
            return Err(REDIM);
        }
        let b = self.subs(bounds)?;
        self.arrays.insert(name.to_string(), Array { dims: b, elems: BTreeMap::new() });
        Ok(())
    }

    pub fn erase(&mut self, name: &str) -> Result<(), E> {
        match self.arrays.remove(name) {
            Some(_) => Ok(()),
            None => Err(ILLEGAL),
        }
    }

    /// DEFINT/SNG/DBL/STR from-to: "Any existing variables not matching the new
    /// type are dropped."
    pub fn deftype(&mut self, t: Ty, from: char, to: char) {
        let old = self.deftypes;
        for c in from..=to {
            self.deftypes[c as usize - 'A' as usize] = t;
        }
        let changed = |name: &str| -> bool {
            let c = name.chars().next().unwrap_or('A');
            c.is_ascii_uppercase() && old[c as usize - 'A' as usize] != self.deftypes[c as usize - 'A' as usize]
        };
        let names: Vec<String> = self.vars.keys().cloned().collect();
        for n in names {
            if suffix_type(&n).is_some() {
                continue;
            }
            if changed(&n) {
                self.vars.remove(&n);
            } else if self.vars[&n].ty() != t {
                // type unchanged but value type differs from the *new* type:
                // the manual's sentence can be read either way
                let v = self.vars[&n].clone();
                self.open.insert(n.clone(), v);
            }
        }
        let names: Vec<String> = self.arrays.keys().cloned().collect();
        for n in names {
            if suffix_type(&n).is_some() {
                continue;
            }
            if changed(&n) {
                self.arrays.get_mut(&n).unwrap().elems.clear();
            } else if t != self.type_of(&n) {
                // open: elements may be dropped or kept; mark the whole array
                self.open.insert(format!("{}()", n), V::Int(0));
            }
        }
    }
}
