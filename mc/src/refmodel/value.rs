//! Reference values and operators, written from the manual (src/doc/chapter_1.rs).

#[derive(Clone, Debug, PartialEq)]
pub enum V {
    Int(i16),
    Sng(f32),
    Dbl(f64),
    Str(Vec<char>),
}

#[derive(Clone, Copy, Debug, PartialEq, Eq, Hash)]
pub enum Ty {
    Int,
    Sng,
    Dbl,
    Str,
}

/// BASIC error codes as the text that follows '?'.
pub type E = &'static str;
pub const OVERFLOW: E = "OVERFLOW";
pub const TYPE_MISMATCH: E = "TYPE MISMATCH";
pub const DIV_ZERO: E = "DIVISION BY ZERO";
pub const ILLEGAL: E = "ILLEGAL FUNCTION CALL";
pub const STRING_TOO_LONG: E = "STRING TOO LONG";
pub const SUBSCRIPT: E = "SUBSCRIPT OUT OF RANGE";
pub const REDIM: E = "REDIMENSIONED ARRAY";
pub const OUT_OF_DATA: E = "OUT OF DATA";
pub const UNDEF_FN: E = "UNDEFINED USER FUNCTION";
pub const NEXT_WO_FOR: E = "NEXT WITHOUT FOR";
pub const RETURN_WO_GOSUB: E = "RETURN WITHOUT GOSUB";
pub const ILLEGAL_DIRECT: E = "ILLEGAL DIRECT";
pub const OUT_OF_MEMORY: E = "OUT OF MEMORY";
pub const CANT_CONTINUE: E = "CAN'T CONTINUE";

impl V {
    pub fn ty(&self) -> Ty {
        match self {
            V::Int(_) => Ty::Int,
            V::Sng(_) => Ty::Sng,
            V::Dbl(_) => Ty::Dbl,
            V::Str(_) => Ty::Str,
        }
    }
    pub fn s(t: &str) -> V {
        V::Str(t.chars().collect())
    }
    pub fn default_of(t: Ty) -> V {
        match t {
            Ty::Int => V::Int(0),
            Ty::Sng => V::Sng(0.0),
            Ty::Dbl => V::Dbl(0.0),
            Ty::Str => V::Str(vec![]),
        }
    }
    pub fn as_f64(&self) -> Result<f64, E> {
        match self {
            V::Int(n) => Ok(*n as f64),
            V::Sng(n) => Ok(*n as f64),
            V::Dbl(n) => Ok(*n),
            V::Str(_) => Err(TYPE_MISMATCH),
        }
    }
    /// conversion to a 16-bit Integer: floor, then range check
    pub fn to_int(&self) -> Result<i16, E> {
        let f = self.as_f64()?;
        let fl = f.floor();
        if fl >= -32768.0 && fl <= 32767.0 {
            Ok(fl as i16)
        } else {
            Err(OVERFLOW)
        }
    }
    pub fn is_zero(&self) -> Result<bool, E> {
        Ok(self.as_f64()? == 0.0)
    }
    /// convert as assignment to a variable of type t does
    pub fn convert(&self, t: Ty) -> Result<V, E> {
        match (t, self) {
            (Ty::Str, V::Str(s)) => {
                if s.len() > 255 {
                    Err(STRING_TOO_LONG)
                } else {
                    Ok(self.clone())
                }
            }
            (Ty::Str, _) | (_, V::Str(_)) => Err(TYPE_MISMATCH),
            (Ty::Int, _) => Ok(V::Int(self.to_int()?)),
            (Ty::Sng, _) => Ok(V::Sng(match self {
                V::Int(n) => *n as f32,
                V::Sng(n) => *n,
                V::Dbl(n) => *n as f32,
                _ => unreachable!(),
            })),
            (Ty::Dbl, _) => Ok(V::Dbl(self.as_f64()?)),
        }
    }
    pub fn same_bits(&self, o: &V) -> bool {
        match (self, o) {
            (V::Int(a), V::Int(b)) => a == b,
            (V::Sng(a), V::Sng(b)) => a.to_bits() == b.to_bits() || (a.is_nan() && b.is_nan()) || (*a == 0.0 && *b == 0.0),
            (V::Dbl(a), V::Dbl(b)) => a.to_bits() == b.to_bits() || (a.is_nan() && b.is_nan()) || (*a == 0.0 && *b == 0.0),
            (V::Str(a), V::Str(b)) => a == b,
            _ => false,
        }
    }
}

#[derive(Clone, Copy, Debug, PartialEq, Eq, Hash)]
pub enum BinOp {
    Pow,
    Mul,
    Div,
    DivInt,
    Mod,
    Add,
    Sub,
    Eq,
    Ne,
    Lt,
    Le,
    Gt,
    Ge,
    And,
    Or,
    Xor,
    Imp,
    Eqv,
}

pub const ALL_BINOPS: [BinOp; 18] = [
    BinOp::Pow,
    BinOp::Mul,
    BinOp::Div,
    BinOp::DivInt,
    BinOp::Mod,
    BinOp::Add,
    BinOp::Sub,
    BinOp::Eq,
    BinOp::Ne,
    BinOp::Lt,
    BinOp::Le,
    BinOp::Gt,
    BinOp::Ge,
    BinOp::And,
    BinOp::Or,
    BinOp::Xor,
    BinOp::Imp,
    BinOp::Eqv,
];

impl BinOp {
    pub fn text(self) -> &'static str {
        match self {
            BinOp::Pow => "^",
            BinOp::Mul => "*",
            BinOp::Div => "/",
            BinOp::DivInt => "\\",
            BinOp::Mod => "MOD",
            BinOp::Add => "+",
            BinOp::Sub => "-",
            BinOp::Eq => "=",
            BinOp::Ne => "<>",
            BinOp::Lt => "<",
            BinOp::Le => "<=",
            BinOp::Gt => ">",
            BinOp::Ge => ">=",
            BinOp::And => "AND",
            BinOp::Or => "OR",
            BinOp::Xor => "XOR",
            BinOp::Imp => "IMP",
            BinOp::Eqv => "EQV",
        }
    }
    /// the manual's precedence table (chapter 1)
    pub fn prec(self) -> u8 {
        match self {
            BinOp::Pow => 13,
            BinOp::Mul | BinOp::Div => 11,
            BinOp::DivInt => 10,
            BinOp::Mod => 9,
            BinOp::Add | BinOp::Sub => 8,
            BinOp::Eq | BinOp::Ne | BinOp::Lt | BinOp::Le | BinOp::Gt | BinOp::Ge => 7,
            BinOp::And => 5,
            BinOp::Or => 4,
            BinOp::Xor => 3,
            BinOp::Imp => 2,
            BinOp::Eqv => 1,
        }
    }
    pub fn is_word(self) -> bool {
        matches!(self, BinOp::Mod | BinOp::And | BinOp::Or | BinOp::Xor | BinOp::Imp | BinOp::Eqv)
    }
}

pub const PREC_NEG: u8 = 12;
pub const PREC_NOT: u8 = 6;

fn fit(v: i64) -> Result<V, E> {
    if v >= -32768 && v <= 32767 {
        Ok(V::Int(v as i16))
    } else {
        Err(OVERFLOW)
    }
}

fn rank(v: &V) -> Result<u8, E> {
    match v {
        V::Int(_) => Ok(0),
        V::Sng(_) => Ok(1),
        V::Dbl(_) => Ok(2),
        V::Str(_) => Err(TYPE_MISMATCH),
    }
}

fn f32_of(v: &V) -> f32 {
    match v {
        V::Int(n) => *n as f32,
        V::Sng(n) => *n,
        V::Dbl(n) => *n as f32,
        V::Str(_) => 0.0,
    }
}

fn bool_v(b: bool) -> V {
    V::Int(if b { -1 } else { 0 })
}

/// Result of a comparison the manual does not pin down (floats nearer than one epsilon).
pub const UNDEFINED_NEAR_EQUAL: E = "#undefined: equality of near-equal floats";

fn cmp(op: BinOp, a: &V, b: &V) -> Result<V, E> {
    use std::cmp::Ordering::*;
    let ord = match (a, b) {
        (V::Str(x), V::Str(y)) => x.cmp(y),
        (V::Str(_), _) | (_, V::Str(_)) => return Err(TYPE_MISMATCH),
        _ => {
            let (x, y) = (a.as_f64()?, b.as_f64()?);
            if x.is_nan() || y.is_nan() {
                return Err("#undefined: comparison with NaN");
            }
            // the manual does not define equality finer than one epsilon of the
            // promoted type; operands that close are outside the defined fragment
            let dbl = rank(a)? == 2 || rank(b)? == 2;
            let eps = if dbl { f64::EPSILON } else { f32::EPSILON as f64 };
            let d = (x - y).abs();
            // (only = and <> : the ordering operators are exact)
            if d != 0.0 && d <= eps * 4.0 && matches!(op, BinOp::Eq | BinOp::Ne) {
                return Err(UNDEFINED_NEAR_EQUAL);
            }
            x.partial_cmp(&y).unwrap()
        }
    };
    Ok(bool_v(match op {
        BinOp::Eq => ord == Equal,
        BinOp::Ne => ord != Equal,
        BinOp::Lt => ord == Less,
        BinOp::Le => ord != Greater,
        BinOp::Gt => ord == Greater,
        BinOp::Ge => ord != Less,
        _ => unreachable!(),
    }))
}

pub fn int_pow(base: i64, exp: i64) -> Result<V, E> {
    let mut r: i64 = 1;
    for _ in 0..exp {
        r = r.checked_mul(base).ok_or(OVERFLOW)?;
        if r > 1 << 40 || r < -(1 << 40) {
            return Err(OVERFLOW);
        }
        if r == 0 || (r == 1 && base == 1) {
            break;
        }
        if base == -1 {
            return fit(if exp % 2 == 0 { 1 } else { -1 });
        }
    }
    fit(r)
}

pub fn binop(op: BinOp, a: &V, b: &V) -> Result<V, E> {
    match op {
        BinOp::Eq | BinOp::Ne | BinOp::Lt | BinOp::Le | BinOp::Gt | BinOp::Ge => cmp(op, a, b),
        BinOp::And | BinOp::Or | BinOp::Xor | BinOp::Imp | BinOp::Eqv => {
            let (x, y) = (a.to_int()?, b.to_int()?);
            Ok(V::Int(match op {
                BinOp::And => x & y,
                BinOp::Or => x | y,
                BinOp::Xor => x ^ y,
                BinOp::Imp => !x | y,
                BinOp::Eqv => !(x ^ y),
                _ => unreachable!(),
            }))
        }
        BinOp::DivInt | BinOp::Mod => {
            let (x, y) = (a.to_int()? as i64, b.to_int()? as i64);
            if y == 0 {
                return Err(DIV_ZERO);
            }
            fit(if op == BinOp::DivInt { x / y } else { x % y })
        }
        BinOp::Add if matches!((a, b), (V::Str(_), V::Str(_))) => {
            if let (V::Str(x), V::Str(y)) = (a, b) {
                let mut r = x.clone();
                r.extend(y.iter());
                Ok(V::Str(r))
            } else {
                unreachable!()
            }
        }
        BinOp::Add | BinOp::Sub | BinOp::Mul => {
            let r = rank(a)?.max(rank(b)?);
            match r {
                0 => {
                    let (x, y) = (a.to_int()? as i64, b.to_int()? as i64);
                    fit(match op {
                        BinOp::Add => x + y,
                        BinOp::Sub => x - y,
                        _ => x * y,
                    })
                }
                1 => {
                    let (x, y) = (f32_of(a), f32_of(b));
                    Ok(V::Sng(match op {
                        BinOp::Add => x + y,
                        BinOp::Sub => x - y,
                        _ => x * y,
                    }))
                }
                _ => {
                    let (x, y) = (a.as_f64()?, b.as_f64()?);
                    Ok(V::Dbl(match op {
                        BinOp::Add => x + y,
                        BinOp::Sub => x - y,
                        _ => x * y,
                    }))
                }
            }
        }
        BinOp::Div => {
            let r = rank(a)?.max(rank(b)?);
            if r <= 1 {
                Ok(V::Sng(f32_of(a) / f32_of(b)))
            } else {
                Ok(V::Dbl(a.as_f64()? / b.as_f64()?))
            }
        }
        BinOp::Pow => {
            let r = rank(a)?.max(rank(b)?);
            if let (V::Int(x), V::Int(y)) = (a, b) {
                if *y >= 0 {
                    return int_pow(*x as i64, *y as i64);
                }
            }
            if r <= 1 {
                let (x, y) = (f32_of(a) as f64, f32_of(b) as f64);
                Ok(V::Sng(x.powf(y) as f32))
            } else {
                Ok(V::Dbl(a.as_f64()?.powf(b.as_f64()?)))
            }
        }
    }
}

pub fn neg(a: &V) -> Result<V, E> {
    match a {
        V::Int(n) => fit(-(*n as i64)),
        V::Sng(n) => Ok(V::Sng(-n)),
        V::Dbl(n) => Ok(V::Dbl(-n)),
        V::Str(_) => Err(TYPE_MISMATCH),
    }
}

pub fn not(a: &V) -> Result<V, E> {
    Ok(V::Int(!a.to_int()?))
}

/// Is the operator's result exactly rounded (so bit-exact comparison is fair)?
pub fn exact(op: BinOp, a: &V, b: &V) -> bool {
    !(op == BinOp::Pow && !(matches!((a, b), (V::Int(_), V::Int(y)) if *y >= 0)))
}

/// |x-y| in units of the last place of the given type
pub fn ulp_diff(a: &V, b: &V) -> Option<u64> {
    match (a, b) {
        (V::Sng(x), V::Sng(y)) => {
            if x.is_nan() && y.is_nan() {
                return Some(0);
            }
            if x == y {
                return Some(0);
            }
            if x.is_nan() || y.is_nan() || x.is_infinite() || y.is_infinite() {
                return None;
            }
            let f = |v: f32| {
                let b = v.to_bits() as i64;
                if b < 0x8000_0000 { b } else { 0x8000_0000 - b }
            };
            Some((f(*x) - f(*y)).unsigned_abs())
        }
        (V::Dbl(x), V::Dbl(y)) => {
            if x.is_nan() && y.is_nan() {
                return Some(0);
            }
            if x == y {
                return Some(0);
            }
            if x.is_nan() || y.is_nan() || x.is_infinite() || y.is_infinite() {
                return None;
            }
            let f = |v: f64| {
                let b = v.to_bits() as i128;
                if b < 0x8000_0000_0000_0000 { b } else { 0x8000_0000_0000_0000 - b }
            };
            Some((f(*x) - f(*y)).unsigned_abs() as u64)
        }
        _ => None,
    }
}
