//! reference models
