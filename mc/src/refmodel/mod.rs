//! Reference models (harness, Rust, written from the manual).
pub mod funcs;
pub mod input;
pub mod interp;
pub mod print;
pub mod store;
pub mod value;
