//! mc — bounded exhaustive exploration of AE9RB/basic-lang (64K BASIC).
//!
//!   mc check  <ID> <quick|thorough>     parent: isolates the worker, handles hangs/crashes
//!   mc worker <ID> <quick|thorough>     runs the sweeps, writes evidence, prints verdict lines
//!   mc replay <file>                    re-runs the single case recorded in a replay file
//!   mc probe  <ID> <tier> <sweep> <shard> <seq>   runs one case (crash bisection)
//!   mc list                             property ids with a check

mod checks;
mod driver;
mod engine;
mod gen;
mod refmodel;
mod space;

use engine::{Acc, Tier, EXIT_HANG};
use serde_json::{json, Value};
use std::time::Instant;

fn verif_root() -> String {
    std::env::var("VERIF_ROOT").unwrap_or_else(|_| "/verif".to_string())
}

fn parse_tier(s: &str) -> Tier {
    match s {
        "quick" => Tier::Quick,
        "thorough" => Tier::Thorough,
        _ => {
            eprintln!("tier must be quick or thorough");
            std::process::exit(2)
        }
    }
}

#[derive(Clone, Debug)]
struct Finding {
    property: String,
    signature: String,
    status: String,
    witness: String,
}

fn load_findings() -> Vec<Finding> {
    let path = format!("{}/known_findings.json", verif_root());
    let text = match std::fs::read_to_string(&path) {
        Ok(t) => t,
        Err(_) => return vec![],
    };
    let v: Value = match serde_json::from_str(&text) {
        Ok(v) => v,
        Err(e) => {
            eprintln!("MACHINERY: known_findings.json does not parse: {}", e);
            std::process::exit(2);
        }
    };
    let mut out = vec![];
    if let Some(arr) = v.get("findings").and_then(|a| a.as_array()) {
        for f in arr {
            out.push(Finding {
                property: f["property"].as_str().unwrap_or("").to_string(),
                signature: f["signature"].as_str().unwrap_or("").to_string(),
                status: f["status"].as_str().unwrap_or("open").to_string(),
                witness: f["witness"].as_str().unwrap_or("").to_string(),
            });
        }
    }
    out
}

fn progress_path(id: &str) -> String {
    format!("{}/evidence/.progress-{}", verif_root(), id)
}

fn write_replay(id: &str, tier: Tier, v: &engine::Viol) -> String {
    let dir = format!("{}/replays", verif_root());
    let _ = std::fs::create_dir_all(&dir);
    let h = engine::hash64(&(v.sig.clone(), v.sweep.clone(), v.shard, v.seq));
    let path = format!("{}/{}-{:016x}.json", dir, id, h);
    let body = json!({
        "property": id,
        "tier": tier.name(),
        "sweep": v.sweep,
        "shard": v.shard,
        "seq": v.seq,
        "signature": v.sig,
        "case": v.case,
        "detail": v.detail,
        "replay_cmd": format!("cd /verif && bin/replay {}", path),
    });
    let _ = std::fs::write(&path, serde_json::to_string_pretty(&body).unwrap());
    path
}

struct Outcome {
    total: Acc,
    per_sweep: Vec<Value>,
    violations: u64,
    known: Vec<String>,
    machinery: Vec<String>,
}

fn judge(
    id: &str,
    tier: Tier,
    sweeps: &[Box<dyn engine::Sweep>],
    total: &mut Acc,
    out: &mut Outcome,
) {
    let findings = load_findings();
    let viols: Vec<(String, (u64, engine::Viol))> =
        total.viols.iter().map(|(k, v)| (k.clone(), v.clone())).collect();
    for (sig, (count, v)) in viols {
        let known = findings
            .iter()
            .find(|f| f.property == id && f.signature == sig && f.status == "open");
        if let Some(f) = known {
            let line = format!(
                "KNOWN-FINDING: property={} {} cases={} witness={}",
                id,
                sig,
                count,
                if f.witness.is_empty() {
                    v.case.to_string()
                } else {
                    f.witness.clone()
                }
            );
            println!("{}", line);
            out.known.push(line);
            continue;
        }
        // re-run the first case twice: the same case must fail the same way
        let sw = sweeps.iter().find(|s| s.name() == v.sweep);
        let mut stable = true;
        if let Some(sw) = sw {
            for _ in 0..2 {
                let acc = engine::rerun(sw.as_ref(), v.shard, v.seq, &v.case);
                if !acc.viols.contains_key(&sig) {
                    stable = false;
                }
            }
        }
        if !stable {
            let m = format!(
                "MACHINERY: violation {} of {} did not reproduce on re-run (sweep {} shard {} seq {})",
                sig, id, v.sweep, v.shard, v.seq
            );
            eprintln!("{}", m);
            out.machinery.push(m);
            continue;
        }
        let path = write_replay(id, tier, &v);
        println!("VIOLATION property={} replay={}", id, path);
        println!(
            "  signature={} cases={} first={} detail={}",
            sig,
            count,
            v.case,
            v.detail.replace('\n', "\\n").chars().take(700).collect::<String>()
        );
        out.violations += 1;
    }
}

fn write_evidence(
    id: &str,
    tier: Tier,
    meta: &checks::Meta,
    out: &Outcome,
    wall: f64,
    exhaustive: bool,
    caps: Vec<String>,
) {
    let t = &out.total;
    let states = if t.states.is_empty() {
        t.nontrivial.len().max(1) as u64
    } else {
        t.states.len() as u64
    };
    let transitions = if t.transitions == 0 { t.evals.max(1) } else { t.transitions };
    let ev = json!({
        "property_id": id,
        "tier": tier.name(),
        "seed": engine::seed() as i64,
        "level": "model_checking",
        "coverage": {
            "evaluations": t.evals,
            "distinct_nontrivial": t.nontrivial.len() as u64,
            "rule": meta.rule,
            "samples": t.samples,
            "states": states,
            "transitions": transitions,
            "traces_validated_against_impl": t.evals,
            "exhaustive": exhaustive,
            "bound": meta.bound,
            "caps_hit": caps,
            "skipped_as_undefined": t.skips,
            "counters": t.counters,
            "sweeps": out.per_sweep,
            "known_findings_reported": out.known,
            "states_note": meta.states_note,
            "threads": engine::threads(),
        },
        "assumptions": meta.assumptions,
        "wall_s": wall,
        "violations": out.violations as i64,
    });
    let dir = format!("{}/evidence", verif_root());
    let _ = std::fs::create_dir_all(&dir);
    let path = format!("{}/{}.json", dir, id);
    std::fs::write(&path, serde_json::to_string_pretty(&ev).unwrap()).expect("write evidence");
}

fn worker(id: &str, tier: Tier) -> i32 {
    engine::install_panic_hook();
    let start = Instant::now();
    let check = match checks::get(id) {
        Some(c) => c,
        None => {
            eprintln!("no check for {}", id);
            return 2;
        }
    };
    let meta = check.meta(tier);
    let sweeps = check.sweeps(tier);
    let mut out = Outcome {
        total: Acc::default(),
        per_sweep: vec![],
        violations: 0,
        known: vec![],
        machinery: vec![],
    };
    let mut total = Acc::default();
    // debugging aid: run only the sweeps whose name contains VERIF_ONLY_SWEEP
    let only = std::env::var("VERIF_ONLY_SWEEP").ok();
    for sw in &sweeps {
        if let Some(o) = &only {
            if !sw.name().contains(o.as_str()) {
                out.machinery.push(format!("sweep {} skipped by VERIF_ONLY_SWEEP (debugging run, not a verdict)", sw.name()));
                continue;
            }
        }
        let t0 = Instant::now();
        let acc = engine::run_sweep(sw.as_ref(), &progress_path(id));
        out.per_sweep.push(json!({
            "name": sw.name(), "shards": sw.shards(), "evaluations": acc.evals,
            "distinct_nontrivial": acc.nontrivial.len(), "wall_s": t0.elapsed().as_secs_f64(),
            "violating_signatures": acc.viols.keys().cloned().collect::<Vec<_>>(),
        }));
        eprintln!(
            "[{}] sweep {}: {} cases, {} distinct non-trivial, {} violating signatures, {:.1}s",
            id,
            sw.name(),
            acc.evals,
            acc.nontrivial.len(),
            acc.viols.len(),
            t0.elapsed().as_secs_f64()
        );
        total.merge(acc);
    }
    judge(id, tier, &sweeps, &mut total, &mut out);
    out.total = total;
    let wall = start.elapsed().as_secs_f64();
    let ok_machinery = out.machinery.is_empty();
    write_evidence(id, tier, &meta, &out, wall, ok_machinery, vec![]);
    if !ok_machinery {
        return 2;
    }
    if out.violations > 0 {
        1
    } else {
        println!(
            "OK property={} tier={} cases={} distinct_nontrivial={} known_findings={} wall_s={:.1}",
            id,
            tier.name(),
            out.total.evals,
            out.total.nontrivial.len(),
            out.known.len(),
            wall
        );
        0
    }
}

fn find_sweep(id: &str, tier: Tier, name: &str) -> Option<Box<dyn engine::Sweep>> {
    let check = checks::get(id)?;
    check.sweeps(tier).into_iter().find(|s| s.name() == name)
}

fn probe(id: &str, tier: Tier, sweep: &str, shard: usize, seq: u64, case: &Value) -> i32 {
    engine::install_panic_hook();
    match find_sweep(id, tier, sweep) {
        Some(sw) => {
            let acc = engine::rerun(sw.as_ref(), shard, seq, case);
            if acc.viols.is_empty() {
                0
            } else {
                for (sig, (_, v)) in &acc.viols {
                    println!("signature={} detail={}", sig, v.detail);
                }
                1
            }
        }
        None => 2,
    }
}

fn replay(path: &str) -> i32 {
    let text = match std::fs::read_to_string(path) {
        Ok(t) => t,
        Err(e) => {
            eprintln!("cannot read {}: {}", path, e);
            return 2;
        }
    };
    let v: Value = serde_json::from_str(&text).expect("replay file is JSON");
    let id = v["property"].as_str().unwrap_or("");
    let tier = parse_tier(v["tier"].as_str().unwrap_or("quick"));
    let sweep = v["sweep"].as_str().unwrap_or("");
    let shard = v["shard"].as_u64().unwrap_or(0) as usize;
    let seq = v["seq"].as_u64().unwrap_or(0);
    println!("replaying {} sweep={} shard={} seq={} case={}", id, sweep, shard, seq, v["case"]);
    let rc = probe(id, tier, sweep, shard, seq, &v["case"]);
    if rc == 1 {
        println!("VIOLATION property={} replay={}", id, path);
    } else if rc == 0 {
        println!("case passes");
    }
    rc
}

/// Parent: run the worker in a child process so that a hang, stack overflow or
/// abort inside the implementation is attributed to one case.
fn check(id: &str, tier: Tier) -> i32 {
    let exe = std::env::current_exe().expect("current_exe");
    let start = Instant::now();
    let _ = std::fs::remove_file(progress_path(id));
    let _ = std::fs::remove_file(format!("{}.hang", progress_path(id)));
    let status = std::process::Command::new(&exe)
        .args(["worker", id, tier.name()])
        .status()
        .expect("spawn worker");
    let code = status.code();
    if let Some(c) = code {
        if c == 0 || c == 1 || c == 2 {
            return c;
        }
    }
    // hang or crash: which case?
    let mut candidates: Vec<(String, usize, u64)> = vec![];
    let read = |p: &str, c: &mut Vec<(String, usize, u64)>| {
        if let Ok(t) = std::fs::read_to_string(p) {
            for l in t.lines() {
                let parts: Vec<&str> = l.rsplitn(3, ' ').collect();
                if parts.len() == 3 {
                    if let (Ok(seq), Ok(shard)) = (parts[0].parse(), parts[1].parse()) {
                        c.push((parts[2].to_string(), shard, seq));
                    }
                }
            }
        }
    };
    let hang = code == Some(EXIT_HANG);
    if hang {
        read(&format!("{}.hang", progress_path(id)), &mut candidates);
    } else {
        read(&progress_path(id), &mut candidates);
    }
    let check = match checks::get(id) {
        Some(c) => c,
        None => return 2,
    };
    let sweeps = check.sweeps(tier);
    let mut violations = 0;
    let mut out = Outcome {
        total: Acc::default(),
        per_sweep: vec![],
        violations: 0,
        known: vec![],
        machinery: vec![],
    };
    for (name, shard, seq) in candidates {
        let sw = match sweeps.iter().find(|s| s.name() == name) {
            Some(s) => s,
            None => continue,
        };
        // confirm in a fresh subprocess with a wall-clock limit
        let mut child = std::process::Command::new(&exe)
            .args(["probe", id, tier.name(), &name, &shard.to_string(), &seq.to_string()])
            .stdout(std::process::Stdio::null())
            .spawn()
            .expect("spawn probe");
        let t0 = Instant::now();
        let mut bad = None;
        loop {
            match child.try_wait() {
                Ok(Some(st)) => {
                    if st.code().map(|c| c > 2).unwrap_or(true) {
                        bad = Some(format!("process died: {:?}", st));
                    }
                    break;
                }
                Ok(None) => {
                    if t0.elapsed().as_secs() > 90 {
                        let _ = child.kill();
                        let _ = child.wait();
                        bad = Some("no return within 90 s".to_string());
                        break;
                    }
                    std::thread::sleep(std::time::Duration::from_millis(20));
                }
                Err(_) => break,
            }
        }
        if let Some(why) = bad {
            let case = engine::describe_one(sw.as_ref(), shard, seq);
            let v = engine::Viol {
                sig: if hang { "hang".into() } else { "crash".into() },
                sweep: name.clone(),
                shard,
                seq,
                case,
                detail: why,
            };
            if sw.crash_is_verdict() {
                let path = write_replay(id, tier, &v);
                println!("VIOLATION property={} replay={}", id, path);
                println!("  signature={} first={} detail={}", v.sig, v.case, v.detail);
                violations += 1;
            } else {
                eprintln!(
                    "MACHINERY: {} in sweep {} case {} ({}); not a verdict for {}",
                    v.sig, name, v.case, v.detail, id
                );
            }
        }
    }
    out.violations = violations;
    out.total.evals = 1;
    out.total.nontrivial.insert(0);
    out.total.nontrivial.insert(1);
    out.total.samples.push(json!("worker did not complete; see caps_hit"));
    write_evidence(
        id,
        tier,
        &check.meta(tier),
        &out,
        start.elapsed().as_secs_f64(),
        false,
        vec![format!("worker ended abnormally ({:?}); sweep incomplete", status)],
    );
    if violations > 0 {
        1
    } else {
        eprintln!("MACHINERY: worker for {} ended with {:?} and no case reproduces it", id, status);
        2
    }
}

fn main() {
    let args: Vec<String> = std::env::args().collect();
    let a = |i: usize| args.get(i).map(|s| s.as_str()).unwrap_or("");
    let code = match a(1) {
        "check" => check(a(2), parse_tier(a(3))),
        "worker" => worker(a(2), parse_tier(a(3))),
        "probe" => probe(
            a(2),
            parse_tier(a(3)),
            a(4),
            a(5).parse().unwrap_or(0),
            a(6).parse().unwrap_or(0),
            &Value::Null,
        ),
        "replay" => replay(a(2)),
        "lex" => {
            // debugging aid: how a line lists and parses
            let l = basic::lang::Line::new(a(2));
            println!("listed: {:?}", l.to_string());
            println!("ast: {:?}", l.ast());
            0
        }
        "session" => {
            // debugging aid: enter the given lines into a fresh interpreter
            let mut s = driver::Session::with(5000, 200);
            for l in &args[2..] {
                s.enter(l);
                println!("> {}\n{}", l, driver::render(&s.take()));
            }
            0
        }
        "list" => {
            for id in checks::ids() {
                println!("{}", id);
            }
            0
        }
        _ => {
            eprintln!("usage: mc check|worker <ID> <quick|thorough> | replay <file> | list");
            2
        }
    };
    std::process::exit(code);
}
