//! Harness AST, canonical renderer and bounded program generator.
//! Programs are generated from this AST and *rendered* to text; the reference
//! models consume the AST, the implementation consumes the text.

use crate::refmodel::value::{BinOp, PREC_NEG, PREC_NOT, V};

#[derive(Clone, Debug, PartialEq)]
pub enum Expr {
    /// literal with its source spelling
    Lit(V, String),
    Var(String),
    /// array element
    Arr(String, Vec<Expr>),
    /// built-in function
    Call(String, Vec<Expr>),
    /// user function
    Fn(String, Vec<Expr>),
    Bin(BinOp, Box<Expr>, Box<Expr>),
    Neg(Box<Expr>),
    Not(Box<Expr>),
    Plus(Box<Expr>),
    Paren(Box<Expr>),
}

pub fn int(n: i16) -> Expr {
    if n < 0 {
        Expr::Neg(Box::new(Expr::Lit(V::Int(-n), format!("{}", -n))))
    } else {
        Expr::Lit(V::Int(n), format!("{}", n))
    }
}
pub fn strlit(s: &str) -> Expr {
    Expr::Lit(V::s(s), format!("\"{}\"", s))
}
pub fn var(n: &str) -> Expr {
    Expr::Var(n.to_string())
}
pub fn bin(op: BinOp, a: Expr, b: Expr) -> Expr {
    Expr::Bin(op, Box::new(a), Box::new(b))
}

impl Expr {
    fn prec(&self) -> u8 {
        match self {
            Expr::Bin(op, _, _) => op.prec(),
            Expr::Neg(_) | Expr::Plus(_) => PREC_NEG,
            Expr::Not(_) => PREC_NOT,
            _ => 100,
        }
    }

    /// Render with the minimal parentheses the precedence table requires
    /// (left associative: a right operand of equal precedence is parenthesised).
    pub fn render(&self) -> String {
        match self {
            Expr::Lit(_, s) => s.clone(),
            Expr::Var(n) => n.clone(),
            Expr::Arr(n, a) | Expr::Call(n, a) | Expr::Fn(n, a) => {
                if a.is_empty() && !matches!(self, Expr::Arr(..)) {
                    n.clone()
                } else {
                    format!("{}({})", n, a.iter().map(|e| e.render()).collect::<Vec<_>>().join(","))
                }
            }
            Expr::Paren(e) => format!("({})", e.render()),
            Expr::Bin(op, a, b) => {
                let p = op.prec();
                let l = if a.prec() < p { format!("({})", a.render()) } else { a.render() };
                let r = if b.prec() <= p { format!("({})", b.render()) } else { b.render() };
                if op.is_word() {
                    format!("{} {} {}", l, op.text(), r)
                } else {
                    format!("{}{}{}", l, op.text(), r)
                }
            }
            Expr::Neg(e) => {
                // operand of unary minus binds at 12: only ^ and primaries go bare
                let s = if e.prec() <= PREC_NEG { format!("({})", e.render()) } else { e.render() };
                format!("-{}", s)
            }
            Expr::Plus(e) => {
                let s = if e.prec() <= PREC_NEG { format!("({})", e.render()) } else { e.render() };
                format!("+{}", s)
            }
            Expr::Not(e) => {
                let s = if e.prec() < PREC_NOT { format!("({})", e.render()) } else { e.render() };
                format!("NOT {}", s)
            }
        }
    }

    /// Fully parenthesised rendering.
    pub fn render_full(&self) -> String {
        match self {
            Expr::Bin(op, a, b) => {
                if op.is_word() {
                    format!("({} {} {})", a.render_full(), op.text(), b.render_full())
                } else {
                    format!("({}{}{})", a.render_full(), op.text(), b.render_full())
                }
            }
            Expr::Neg(e) => format!("(-{})", e.render_full()),
            Expr::Plus(e) => format!("(+{})", e.render_full()),
            Expr::Not(e) => format!("(NOT {})", e.render_full()),
            Expr::Paren(e) => e.render_full(),
            Expr::Arr(n, a) | Expr::Call(n, a) | Expr::Fn(n, a) if !a.is_empty() => {
                format!("{}({})", n, a.iter().map(|e| e.render_full()).collect::<Vec<_>>().join(","))
            }
            _ => self.render(),
        }
    }
}

#[derive(Clone, Debug, PartialEq)]
pub enum PItem {
    E(Expr),
    Semi,
    Comma,
}

#[derive(Clone, Debug, PartialEq)]
pub enum LVal {
    Var(String),
    Arr(String, Vec<Expr>),
}

impl LVal {
    pub fn render(&self) -> String {
        match self {
            LVal::Var(n) => n.clone(),
            LVal::Arr(n, a) => format!("{}({})", n, a.iter().map(|e| e.render()).collect::<Vec<_>>().join(",")),
        }
    }
    pub fn name(&self) -> &str {
        match self {
            LVal::Var(n) | LVal::Arr(n, _) => n,
        }
    }
}

#[derive(Clone, Debug, PartialEq)]
pub enum Branch {
    /// THEN n / ELSE n
    Line(u16),
    Stmts(Vec<Stmt>),
}

#[derive(Clone, Debug, PartialEq)]
pub enum Stmt {
    Print(Vec<PItem>),
    Let(LVal, Expr),
    Goto(u16),
    Gosub(u16),
    Return,
    OnGoto(Expr, Vec<u16>),
    OnGosub(Expr, Vec<u16>),
    /// IF c THEN ... [ELSE ...]
    If(Expr, Branch, Option<Branch>),
    /// IF c GOTO n [ELSE ...]
    IfGoto(Expr, u16, Option<Branch>),
    For(String, Expr, Expr, Option<Expr>),
    Next(Vec<String>),
    While(Expr),
    Wend,
    End,
    Stop,
    Tron,
    Troff,
    Input(Option<String>, Vec<LVal>),
    /// INPUT ,["prompt";]vars : capitalisation off
    InputNoCaps(Option<String>, Vec<LVal>),
    Rem(String),
    Empty,
    Data(Vec<Expr>),
    Read(Vec<LVal>),
    Restore(Option<u16>),
    Def(String, Vec<String>, Expr),
    Dim(Vec<(String, Vec<Expr>)>),
    Erase(Vec<String>),
    Clear,
    Swap(LVal, LVal),
    DefType(&'static str, char, char),
    MidAssign(LVal, Expr, Option<Expr>, Expr),
    /// verbatim text (statements only the implementation interprets)
    Raw(String),
    Cls,
    /// LIST (whole program)
    List,
}

fn render_branch(b: &Branch) -> String {
    match b {
        Branch::Line(n) => format!("{}", n),
        Branch::Stmts(v) => render_stmts(v),
    }
}

pub fn render_stmts(v: &[Stmt]) -> String {
    v.iter().map(|s| s.render()).collect::<Vec<_>>().join(":")
}

fn list(v: &[u16]) -> String {
    v.iter().map(|n| n.to_string()).collect::<Vec<_>>().join(",")
}

impl Stmt {
    /// Canonical spelling: the form LIST prints.
    pub fn render(&self) -> String {
        match self {
            Stmt::Print(items) => {
                let mut s = String::from("PRINT");
                let mut first = true;
                let mut prev_expr = false;
                for it in items {
                    match it {
                        PItem::E(e) => {
                            // juxtaposed items are separated by a blank
                            if first || prev_expr {
                                s.push(' ');
                            }
                            s.push_str(&e.render());
                            prev_expr = true;
                        }
                        PItem::Semi => {
                            s.push(';');
                            prev_expr = false;
                        }
                        PItem::Comma => {
                            s.push(',');
                            prev_expr = false;
                        }
                    }
                    first = false;
                }
                s
            }
            Stmt::Let(l, e) => format!("{}={}", l.render(), e.render()),
            Stmt::Goto(n) => format!("GOTO {}", n),
            Stmt::Gosub(n) => format!("GOSUB {}", n),
            Stmt::Return => "RETURN".into(),
            Stmt::OnGoto(e, v) => format!("ON {} GOTO {}", e.render(), list(v)),
            Stmt::OnGosub(e, v) => format!("ON {} GOSUB {}", e.render(), list(v)),
            Stmt::If(c, t, e) => {
                let mut s = format!("IF {} THEN {}", c.render(), render_branch(t));
                if let Some(e) = e {
                    s.push_str(&format!(" ELSE {}", render_branch(e)));
                }
                s
            }
            Stmt::IfGoto(c, n, e) => {
                let mut s = format!("IF {} GOTO {}", c.render(), n);
                if let Some(e) = e {
                    s.push_str(&format!(" ELSE {}", render_branch(e)));
                }
                s
            }
            Stmt::For(v, a, b, st) => {
                let mut s = format!("FOR {}={} TO {}", v, a.render(), b.render());
                if let Some(st) = st {
                    s.push_str(&format!(" STEP {}", st.render()));
                }
                s
            }
            Stmt::Next(v) => {
                if v.is_empty() {
                    "NEXT".into()
                } else {
                    format!("NEXT {}", v.join(","))
                }
            }
            Stmt::While(c) => format!("WHILE {}", c.render()),
            Stmt::Wend => "WEND".into(),
            Stmt::End => "END".into(),
            Stmt::Stop => "STOP".into(),
            Stmt::Tron => "TRON".into(),
            Stmt::Troff => "TROFF".into(),
            Stmt::Input(p, vars) => {
                let vs = vars.iter().map(|v| v.render()).collect::<Vec<_>>().join(",");
                match p {
                    Some(p) => format!("INPUT \"{}\";{}", p, vs),
                    None => format!("INPUT {}", vs),
                }
            }
            Stmt::InputNoCaps(p, vars) => {
                let vs = vars.iter().map(|v| v.render()).collect::<Vec<_>>().join(",");
                match p {
                    Some(p) => format!("INPUT ,\"{}\";{}", p, vs),
                    None => format!("INPUT ,{}", vs),
                }
            }
            Stmt::Rem(t) => {
                if t.is_empty() {
                    "REM".into()
                } else {
                    format!("REM {}", t)
                }
            }
            Stmt::Empty => String::new(),
            Stmt::Data(v) => format!("DATA {}", v.iter().map(|e| e.render()).collect::<Vec<_>>().join(",")),
            Stmt::Read(v) => format!("READ {}", v.iter().map(|e| e.render()).collect::<Vec<_>>().join(",")),
            Stmt::Restore(n) => match n {
                Some(n) => format!("RESTORE {}", n),
                None => "RESTORE".into(),
            },
            Stmt::Def(n, p, e) => format!("DEF {}({})={}", n, p.join(","), e.render()),
            Stmt::Dim(v) => format!(
                "DIM {}",
                v.iter()
                    .map(|(n, d)| format!("{}({})", n, d.iter().map(|e| e.render()).collect::<Vec<_>>().join(",")))
                    .collect::<Vec<_>>()
                    .join(",")
            ),
            Stmt::Erase(v) => format!("ERASE {}", v.join(",")),
            Stmt::Clear => "CLEAR".into(),
            Stmt::Swap(a, b) => format!("SWAP {},{}", a.render(), b.render()),
            Stmt::DefType(w, a, b) => {
                if a == b {
                    format!("{} {}", w, a)
                } else {
                    format!("{} {}-{}", w, a, b)
                }
            }
            Stmt::MidAssign(l, p, n, e) => match n {
                Some(n) => format!("MID$({},{},{})={}", l.render(), p.render(), n.render(), e.render()),
                None => format!("MID$({},{})={}", l.render(), p.render(), e.render()),
            },
            Stmt::Raw(t) => t.clone(),
            Stmt::Cls => "CLS".into(),
            Stmt::List => "LIST".into(),
        }
    }

    /// IF clauses and remarks extend to the end of the line.
    pub fn must_end_line(&self) -> bool {
        self.is_if() || matches!(self, Stmt::Rem(_))
    }

    pub fn is_if(&self) -> bool {
        matches!(self, Stmt::If(..) | Stmt::IfGoto(..))
    }
}

#[derive(Clone, Debug, PartialEq)]
pub struct Line {
    pub num: u16,
    pub stmts: Vec<Stmt>,
}

impl Line {
    pub fn render(&self) -> String {
        format!("{} {}", self.num, render_stmts(&self.stmts))
    }
}

#[derive(Clone, Debug, PartialEq, Default)]
pub struct Prog {
    pub lines: Vec<Line>,
}

impl Prog {
    pub fn render(&self) -> Vec<String> {
        self.lines.iter().map(|l| l.render()).collect()
    }
    pub fn text(&self) -> String {
        self.render().join(" / ")
    }
    pub fn line_numbers(&self) -> Vec<u16> {
        self.lines.iter().map(|l| l.num).collect()
    }
}

/// Compositions of n statements over consecutive lines: bit i set = line break
/// after statement i. An IF must be last on its line (its clauses extend to
/// the end of the line), so compositions that put a statement after an IF on
/// the same line are skipped by `compose`.
pub fn compose(stmts: &[Stmt], mask: u32, first: u16, step: u16) -> Option<Prog> {
    let mut lines = vec![];
    let mut cur = vec![];
    let mut num = first;
    for (i, s) in stmts.iter().enumerate() {
        if let Some(last) = cur.last() {
            let last: &Stmt = last;
            if last.is_if() || matches!(last, Stmt::Rem(_)) {
                return None;
            }
        }
        cur.push(s.clone());
        if mask & (1 << i) != 0 || i + 1 == stmts.len() {
            if render_stmts(&cur).trim().is_empty() {
                // a bare line number deletes the line: not a program line
                return None;
            }
            lines.push(Line { num, stmts: std::mem::take(&mut cur) });
            num += step;
        }
    }
    Some(Prog { lines })
}

pub fn lines_of_mask(n: usize, mask: u32) -> usize {
    (0..n.saturating_sub(1)).filter(|i| mask & (1 << i) != 0).count() + 1
}
