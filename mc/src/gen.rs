//! harness AST and generators
