//! E-enum / E-sweep engine: sharded, deterministic, exhaustive enumeration with
//! a watchdog. A `Sweep` enumerates its cases shard by shard; every case is
//! announced with `Ctx::begin` before it is executed so that a hang or a crash
//! can be attributed to one case, and so that a single case can be re-run
//! (`mc replay`, `mc probe`) by re-enumerating its shard.

use serde_json::{json, Value};
use std::collections::{BTreeMap, HashSet};
use std::sync::atomic::{AtomicBool, AtomicU64, AtomicUsize, Ordering};
use std::sync::{Arc, Mutex};
use std::time::{Duration, Instant};

#[derive(Clone, Copy, PartialEq, Eq, Debug)]
pub enum Tier {
    Quick,
    Thorough,
}

impl Tier {
    pub fn name(self) -> &'static str {
        match self {
            Tier::Quick => "quick",
            Tier::Thorough => "thorough",
        }
    }
    pub fn pick<T>(self, q: T, t: T) -> T {
        match self {
            Tier::Quick => q,
            Tier::Thorough => t,
        }
    }
}

#[derive(Clone, Debug)]
pub struct Viol {
    pub sig: String,
    pub sweep: String,
    pub shard: usize,
    pub seq: u64,
    pub case: Value,
    pub detail: String,
}

#[derive(Clone, Copy, PartialEq, Eq)]
pub enum Step {
    Run,
    Skip,
    Describe,
}

#[derive(Clone, Copy, PartialEq, Eq)]
pub enum Mode {
    Normal,
    /// run only the case with this sequence number
    Only(u64),
    /// run nothing; capture the description of this case
    Describe(u64),
}

/// Per-thread accumulator; merged at the end of a sweep.
#[derive(Default)]
pub struct Acc {
    pub evals: u64,
    pub nontrivial: HashSet<u64>,
    pub states: HashSet<u64>,
    pub transitions: u64,
    pub skips: BTreeMap<String, u64>,
    pub counters: BTreeMap<String, u64>,
    /// signature -> (count, first = smallest (shard, seq))
    pub viols: BTreeMap<String, (u64, Viol)>,
    pub samples: Vec<Value>,
}

impl Acc {
    pub fn merge(&mut self, o: Acc) {
        self.evals += o.evals;
        self.nontrivial.extend(o.nontrivial);
        self.states.extend(o.states);
        self.transitions += o.transitions;
        for (k, v) in o.skips {
            *self.skips.entry(k).or_insert(0) += v;
        }
        for (k, v) in o.counters {
            *self.counters.entry(k).or_insert(0) += v;
        }
        for (k, (n, v)) in o.viols {
            match self.viols.get_mut(&k) {
                None => {
                    self.viols.insert(k, (n, v));
                }
                Some((m, w)) => {
                    *m += n;
                    if (v.shard, v.seq) < (w.shard, w.seq) {
                        *w = v;
                    }
                }
            }
        }
        for s in o.samples {
            if self.samples.len() < 12 {
                self.samples.push(s);
            }
        }
    }
}

pub struct Ctx<'a> {
    pub acc: Acc,
    pub sweep: String,
    pub shard: usize,
    pub mode: Mode,
    seq: u64,
    cur_desc: String,
    slot: Option<&'a Slot>,
    pub described: Option<Value>,
    pub ran: bool,
}

pub struct Slot {
    pub shard: AtomicUsize,
    pub seq: AtomicU64,
    pub busy: AtomicBool,
}

impl<'a> Ctx<'a> {
    pub fn new(sweep: &str, shard: usize, mode: Mode, slot: Option<&'a Slot>) -> Ctx<'a> {
        Ctx {
            acc: Acc::default(),
            sweep: sweep.to_string(),
            shard,
            mode,
            seq: 0,
            cur_desc: String::new(),
            slot,
            described: None,
            ran: false,
        }
    }

    /// Announce the next case. Returns true if it must be executed.
    pub fn begin(&mut self, desc: &str) -> bool {
        let seq = self.seq;
        self.seq += 1;
        match self.mode {
            Mode::Normal => {
                if let Some(s) = self.slot {
                    s.seq.store(seq, Ordering::Relaxed);
                }
                self.cur_desc.clear();
                self.cur_desc.push_str(desc);
                self.acc.evals += 1;
                true
            }
            Mode::Only(n) => {
                if n == seq {
                    self.cur_desc.clear();
                    self.cur_desc.push_str(desc);
                    self.acc.evals += 1;
                    self.ran = true;
                    true
                } else {
                    false
                }
            }
            Mode::Describe(n) => {
                if n == seq {
                    self.described = Some(Value::String(desc.to_string()));
                }
                false
            }
        }
    }

    /// Allocation-free variant for very large sweeps: the caller handles
    /// `Step::Describe` by storing the description in `ctx.described` and
    /// passes the case explicitly to `violation_case`.
    pub fn begin_fast(&mut self) -> Step {
        let seq = self.seq;
        self.seq += 1;
        self.cur_desc.clear();
        match self.mode {
            Mode::Normal => {
                if let Some(s) = self.slot {
                    s.seq.store(seq, Ordering::Relaxed);
                }
                self.acc.evals += 1;
                Step::Run
            }
            Mode::Only(n) => {
                if n == seq {
                    self.acc.evals += 1;
                    self.ran = true;
                    Step::Run
                } else {
                    Step::Skip
                }
            }
            Mode::Describe(n) => {
                if n == seq {
                    Step::Describe
                } else {
                    Step::Skip
                }
            }
        }
    }

    pub fn violation_case(&mut self, sig: &str, detail: String, case: Value) {
        match self.acc.viols.get_mut(sig) {
            Some((n, _)) => *n += 1,
            None => {
                let v = Viol {
                    sig: sig.to_string(),
                    sweep: self.sweep.clone(),
                    shard: self.shard,
                    seq: self.cur_seq(),
                    case,
                    detail,
                };
                self.acc.viols.insert(sig.to_string(), (1, v));
            }
        }
    }

    /// The watchdog slot of the thread running this shard: sweeps that use
    /// their own worker threads bump `seq` to show that they are alive.
    pub fn heartbeat(&self) -> Option<&'a Slot> {
        self.slot
    }

    /// Set the description of the current case without sequence bookkeeping
    /// (sweeps that enumerate internally, e.g. the state-space search).
    pub fn force_case(&mut self, desc: &str) {
        self.cur_desc.clear();
        self.cur_desc.push_str(desc);
    }

    /// True once the wanted case has been seen in Only/Describe mode.
    pub fn done(&self) -> bool {
        match self.mode {
            Mode::Normal => false,
            Mode::Only(n) | Mode::Describe(n) => self.seq > n,
        }
    }

    pub fn cur_seq(&self) -> u64 {
        self.seq.saturating_sub(1)
    }

    pub fn describe_current(&self) -> Value {
        Value::String(self.cur_desc.clone())
    }

    pub fn violation(&mut self, sig: &str, detail: String) {
        let v = Viol {
            sig: sig.to_string(),
            sweep: self.sweep.clone(),
            shard: self.shard,
            seq: self.cur_seq(),
            case: Value::Null,
            detail,
        };
        match self.acc.viols.get_mut(sig) {
            Some((n, _)) => *n += 1,
            None => {
                let mut v = v;
                v.case = self.describe_current();
                self.acc.viols.insert(sig.to_string(), (1, v));
            }
        }
    }

    pub fn nontrivial(&mut self, h: u64) {
        self.acc.nontrivial.insert(h);
    }

    pub fn skip(&mut self, why: &str) {
        *self.acc.skips.entry(why.to_string()).or_insert(0) += 1;
    }

    pub fn count(&mut self, what: &str) {
        *self.acc.counters.entry(what.to_string()).or_insert(0) += 1;
    }

    pub fn count_n(&mut self, what: &str, n: u64) {
        *self.acc.counters.entry(what.to_string()).or_insert(0) += n;
    }

    pub fn sample(&mut self) {
        if self.acc.samples.len() < 3 {
            let d = self.describe_current();
            self.acc.samples.push(d);
        }
    }
}

pub trait Sweep: Sync {
    fn name(&self) -> String;
    fn shards(&self) -> usize;
    /// Enumerate and run every case of the shard, calling `ctx.begin` first.
    fn run_shard(&self, shard: usize, ctx: &mut Ctx);
    /// Is a hang / crash inside a case a verdict for the property (true) or a
    /// machinery failure (false)?
    fn crash_is_verdict(&self) -> bool {
        false
    }
    /// Re-run one recorded case from its description (for sweeps whose cases
    /// are not addressed by (shard, seq)). Returns false if not supported.
    fn replay_case(&self, _case: &Value, _ctx: &mut Ctx) -> bool {
        false
    }
}

pub fn threads() -> usize {
    std::env::var("VERIF_THREADS")
        .ok()
        .and_then(|s| s.parse().ok())
        .unwrap_or_else(|| {
            std::thread::available_parallelism()
                .map(|n| n.get())
                .unwrap_or(4)
        })
}

pub fn seed() -> u64 {
    std::env::var("VERIF_SEED")
        .ok()
        .and_then(|s| s.parse::<i64>().ok())
        .map(|v| v as u64)
        .unwrap_or(0)
}

pub struct Hang {
    pub sweep: String,
    pub shard: usize,
    pub seq: u64,
}

pub const EXIT_HANG: i32 = 86;

/// Run all shards of a sweep on a pool of threads (8 MiB stacks, like the main
/// thread of the real binary). The watchdog ends the process with
/// `EXIT_HANG` after writing `<progress>.hang` if one case does not finish in
/// `hang_secs`.
pub fn run_sweep(sweep: &dyn Sweep, progress_file: &str) -> Acc {
    let n = sweep.shards();
    let nthreads = threads().min(n.max(1));
    if let Some(dir) = std::path::Path::new(progress_file).parent() {
        let _ = std::fs::create_dir_all(dir);
    }
    // VERIF_SEED only permutes the order in which shards are handed out.
    let mut order: Vec<usize> = (0..n).collect();
    let sd = seed();
    if sd != 0 && n > 1 {
        let mut x = sd.wrapping_mul(0x9E3779B97F4A7C15) | 1;
        for i in (1..n).rev() {
            x ^= x << 13;
            x ^= x >> 7;
            x ^= x << 17;
            order.swap(i, (x % (i as u64 + 1)) as usize);
        }
    }
    let order = Arc::new(order);
    let next = AtomicUsize::new(0);
    let slots: Vec<Slot> = (0..nthreads)
        .map(|_| Slot {
            shard: AtomicUsize::new(usize::MAX),
            seq: AtomicU64::new(0),
            busy: AtomicBool::new(false),
        })
        .collect();
    let total = Mutex::new(Acc::default());
    let finished = AtomicBool::new(false);
    let name = sweep.name();
    let hang_secs: u64 = std::env::var("VERIF_HANG_SECS")
        .ok()
        .and_then(|s| s.parse().ok())
        .unwrap_or(60);
    std::thread::scope(|sc| {
        // watchdog
        sc.spawn(|| {
            let mut last: Vec<(usize, u64, Instant)> = slots
                .iter()
                .map(|_| (usize::MAX, 0, Instant::now()))
                .collect();
            let mut tick = 0u64;
            while !finished.load(Ordering::Relaxed) {
                std::thread::sleep(Duration::from_millis(50));
                tick += 1;
                let mut lines = String::new();
                for (i, s) in slots.iter().enumerate() {
                    let sh = s.shard.load(Ordering::Relaxed);
                    let sq = s.seq.load(Ordering::Relaxed);
                    let busy = s.busy.load(Ordering::Relaxed);
                    if busy {
                        lines.push_str(&format!("{} {} {}\n", name, sh, sq));
                    }
                    if !busy || (sh, sq) != (last[i].0, last[i].1) {
                        last[i] = (sh, sq, Instant::now());
                    } else if last[i].2.elapsed() > Duration::from_secs(hang_secs) {
                        let _ = std::fs::write(
                            format!("{}.hang", progress_file),
                            format!("{} {} {}\n", name, sh, sq),
                        );
                        std::process::exit(EXIT_HANG);
                    }
                }
                if tick % 2 == 0 {
                    let _ = std::fs::write(progress_file, lines);
                }
            }
        });
        let mut handles = vec![];
        for t in 0..nthreads {
            let slot = &slots[t];
            let next = &next;
            let order = order.clone();
            let total = &total;
            let h = std::thread::Builder::new()
                .stack_size(8 << 20)
                .spawn_scoped(sc, move || loop {
                    let k = next.fetch_add(1, Ordering::Relaxed);
                    if k >= order.len() {
                        slot.busy.store(false, Ordering::Relaxed);
                        break;
                    }
                    let shard = order[k];
                    slot.shard.store(shard, Ordering::Relaxed);
                    slot.seq.store(0, Ordering::Relaxed);
                    slot.busy.store(true, Ordering::Relaxed);
                    let mut ctx = Ctx::new(&sweep.name(), shard, Mode::Normal, Some(slot));
                    let r = std::panic::catch_unwind(std::panic::AssertUnwindSafe(|| sweep.run_shard(shard, &mut ctx)));
                    if r.is_err() {
                        // calls into the implementation are wrapped in `guard`: this is the harness's own fault
                        let msg = PANIC_MSG.with(|m| m.borrow().clone());
                        eprintln!("MACHINERY: harness panic in sweep {} shard {}: {}", sweep.name(), shard, msg);
                        std::process::exit(2);
                    }
                    slot.busy.store(false, Ordering::Relaxed);
                    total.lock().unwrap().merge(ctx.acc);
                })
                .unwrap();
            handles.push(h);
        }
        for h in handles {
            if h.join().is_err() {
                // a panic outside `guard` is a fault of the harness itself: never a verdict, never silent
                eprintln!("MACHINERY: a worker thread of sweep {} panicked outside the guarded call into the implementation", name);
                std::process::exit(2);
            }
        }
        finished.store(true, Ordering::Relaxed);
    });
    let _ = std::fs::remove_file(progress_file);
    total.into_inner().unwrap()
}

/// Re-run one case (by re-enumerating its shard). Returns the accumulator of
/// that single case.
pub fn run_one(sweep: &dyn Sweep, shard: usize, seq: u64) -> Acc {
    let mut ctx = Ctx::new(&sweep.name(), shard, Mode::Only(seq), None);
    sweep.run_shard(shard, &mut ctx);
    ctx.acc
}

pub fn describe_one(sweep: &dyn Sweep, shard: usize, seq: u64) -> Value {
    let mut ctx = Ctx::new(&sweep.name(), shard, Mode::Describe(seq), None);
    sweep.run_shard(shard, &mut ctx);
    ctx.described.unwrap_or(json!({"shard": shard, "seq": seq}))
}

pub fn hash64<T: std::hash::Hash + ?Sized>(t: &T) -> u64 {
    use std::hash::Hasher;
    let mut h = std::collections::hash_map::DefaultHasher::new();
    t.hash(&mut h);
    h.finish()
}

thread_local! {
    static PANIC_MSG: std::cell::RefCell<String> = std::cell::RefCell::new(String::new());
}

pub fn install_panic_hook() {
    std::panic::set_hook(Box::new(|info| {
        let msg = if let Some(s) = info.payload().downcast_ref::<&str>() {
            s.to_string()
        } else if let Some(s) = info.payload().downcast_ref::<String>() {
            s.clone()
        } else {
            "panic".to_string()
        };
        let loc = info
            .location()
            .map(|l| format!("{}:{}", l.file(), l.line()))
            .unwrap_or_default();
        PANIC_MSG.with(|m| *m.borrow_mut() = format!("{} at {}", msg, loc));
    }));
}

/// Panic location as a signature class ("panic@src/mach/val.rs:42").
pub fn panic_class(msg: &str) -> String {
    let loc = msg.rsplit(" at ").next().unwrap_or("");
    let loc = loc.rsplit("/repo/").next().unwrap_or(loc);
    let loc = if loc.contains("/rustc/") { loc.rsplit("library/").next().unwrap_or(loc) } else { loc };
    format!("panic@{}", loc)
}

/// Run `f`, turning a panic into Err(message).
pub fn guard<T, F: FnOnce() -> T>(f: F) -> Result<T, String> {
    match std::panic::catch_unwind(std::panic::AssertUnwindSafe(f)) {
        Ok(v) => Ok(v),
        Err(_) => Err(PANIC_MSG.with(|m| m.borrow().clone())),
    }
}

/// Re-run a recorded case: by its description when the sweep supports that,
/// else by re-enumerating (shard, seq).
pub fn rerun(sweep: &dyn Sweep, shard: usize, seq: u64, case: &Value) -> Acc {
    let mut ctx = Ctx::new(&sweep.name(), shard, Mode::Only(seq), None);
    if sweep.replay_case(case, &mut ctx) {
        return ctx.acc;
    }
    run_one(sweep, shard, seq)
}
