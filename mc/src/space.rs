//! E-space: explicit-state breadth-first search over UI-level action
//! histories. A state is reached by replaying a history on a fresh
//! implementation; states are deduplicated by a digest of the whole
//! implementation state (hook `Runtime::verif_digest`, optionally combined
//! with the reference model's state). Every transition is executed on the
//! real code and judged by the model's oracle.
//!
//! The search is deterministic: successors of a level are sorted by history
//! before representatives are chosen, so thread timing never changes the set
//! of states, the representative histories or the first counterexample.

use crate::engine::{hash64, Ctx, Sweep};
use serde_json::Value;
use std::collections::HashSet;
use std::sync::atomic::{AtomicUsize, Ordering};
use std::sync::Mutex;

pub struct Step {
    /// identity of the state reached
    pub digest: u64,
    /// violations of the oracle on the last transition: (signature, detail)
    pub viols: Vec<(String, String)>,
    /// hash of an observation that makes this transition non-trivial (if any)
    pub nontrivial: Option<u64>,
    /// do not expand this state further
    pub terminal: bool,
}

pub trait SpaceModel: Sync {
    fn name(&self) -> String;
    fn action_names(&self) -> Vec<String>;
    /// Replay `hist` (action indices) on a fresh system and judge the last
    /// transition. None = the last action is not enabled there.
    fn run(&self, hist: &[usize]) -> Option<Step>;
    fn max_depth(&self) -> usize;
    /// false = do not deduplicate (every history is its own state)
    fn dedup(&self) -> bool {
        true
    }
    fn crash_is_verdict(&self) -> bool {
        false
    }
}

pub struct SpaceSweep<M: SpaceModel> {
    pub model: M,
}

fn describe<M: SpaceModel>(m: &M, hist: &[usize]) -> String {
    let names = m.action_names();
    hist.iter().map(|a| names[*a].clone()).collect::<Vec<_>>().join(" | ")
}

impl<M: SpaceModel> SpaceSweep<M> {
    fn parse(&self, case: &str) -> Option<Vec<usize>> {
        let names = self.model.action_names();
        if case.is_empty() {
            return Some(vec![]);
        }
        case.split(" | ").map(|n| names.iter().position(|x| x == n)).collect()
    }
}

impl<M: SpaceModel> Sweep for SpaceSweep<M> {
    fn name(&self) -> String {
        self.model.name()
    }
    fn shards(&self) -> usize {
        1
    }
    fn crash_is_verdict(&self) -> bool {
        self.model.crash_is_verdict()
    }
    fn replay_case(&self, case: &Value, ctx: &mut Ctx) -> bool {
        let hist = match case.as_str().and_then(|s| self.parse(s)) {
            Some(h) => h,
            None => return false,
        };
        ctx.force_case(case.as_str().unwrap_or(""));
        match crate::engine::guard(|| self.model.run(&hist)) {
            Ok(Some(step)) => {
                for (sig, detail) in step.viols {
                    ctx.violation(&sig, detail);
                }
            }
            Ok(None) => {}
            Err(p) => ctx.violation(&crate::engine::panic_class(&p), p),
        }
        true
    }
    fn run_shard(&self, _shard: usize, ctx: &mut Ctx) {
        if ctx.mode != crate::engine::Mode::Normal {
            return;
        }
        let m = &self.model;
        let nact = m.action_names().len();
        let threads = crate::engine::threads();
        let mut seen: HashSet<u64> = HashSet::new();
        let mut frontier: Vec<Vec<usize>> = vec![vec![]];
        if let Some(s0) = m.run(&[]) {
            seen.insert(s0.digest);
        }
        let mut states = 1u64;
        let mut transitions = 0u64;
        for depth in 0..m.max_depth() {
            // all (history, action) pairs of this level
            let jobs: Vec<(usize, usize)> = (0..frontier.len()).flat_map(|i| (0..nact).map(move |a| (i, a))).collect();
            let next_job = AtomicUsize::new(0);
            let results: Mutex<Vec<(Vec<usize>, Step)>> = Mutex::new(vec![]);
            let hb = ctx.heartbeat();
            std::thread::scope(|sc| {
                for _ in 0..threads.min(jobs.len().max(1)) {
                    sc.spawn(|| {
                        let mut local = vec![];
                        loop {
                            let j = next_job.fetch_add(1, Ordering::Relaxed);
                            if j >= jobs.len() {
                                break;
                            }
                            let (i, a) = jobs[j];
                            if let Some(s) = hb {
                                s.seq.fetch_add(1, Ordering::Relaxed);
                            }
                            let mut h = frontier[i].clone();
                            h.push(a);
                            let r = crate::engine::guard(|| m.run(&h));
                            match r {
                                Ok(Some(step)) => local.push((h, step)),
                                Ok(None) => {}
                                Err(p) => local.push((
                                    h,
                                    Step {
                                        digest: 0,
                                        viols: vec![(crate::engine::panic_class(&p), p)],
                                        nontrivial: None,
                                        terminal: true,
                                    },
                                )),
                            }
                        }
                        results.lock().unwrap().extend(local);
                    });
                }
            });
            let mut res = results.into_inner().unwrap();
            // sorting tens of millions of histories runs no implementation code but takes a while:
            // keep the watchdog's heartbeat going from a ticker thread meanwhile
            let sorting = std::sync::atomic::AtomicBool::new(true);
            std::thread::scope(|sc| {
                sc.spawn(|| {
                    while sorting.load(Ordering::Relaxed) {
                        if let Some(s) = hb {
                            s.seq.fetch_add(1, Ordering::Relaxed);
                        }
                        std::thread::sleep(std::time::Duration::from_millis(200));
                    }
                });
                res.sort_by(|a, b| a.0.cmp(&b.0));
                sorting.store(false, Ordering::Relaxed);
            });
            let mut next = vec![];
            for (h, step) in res {
                transitions += 1;
                if let Some(s) = hb {
                    s.seq.fetch_add(1, Ordering::Relaxed);
                }
                let desc = describe(m, &h);
                ctx.force_case(&desc);
                ctx.acc.evals += 1;
                if let Some(n) = step.nontrivial {
                    ctx.nontrivial(n);
                }
                for (sig, detail) in &step.viols {
                    ctx.violation(sig, detail.clone());
                }
                if ctx.acc.samples.len() < 3 && h.len() == depth + 1 && transitions % 7 == 1 {
                    ctx.acc.samples.push(Value::String(desc));
                }
                if step.terminal {
                    continue;
                }
                let d = if m.dedup() { step.digest } else { hash64(&h) };
                if seen.insert(d) {
                    states += 1;
                    next.push(h);
                }
            }
            ctx.count_n(&format!("{}:states_new_at_depth_{}", m.name(), depth + 1), next.len() as u64);
            frontier = next;
            if frontier.is_empty() {
                ctx.count(&format!("{}:search_closed_at_depth_{}", m.name(), depth + 1));
                break;
            }
        }
        ctx.acc.transitions += transitions;
        for d in seen {
            ctx.acc.states.insert(d);
        }
        let _ = states;
    }
}
