//! E-space explicit-state explorer
