//! E-space: explicit-state breadth-first search over UI-level action
//! histories. A state is reached by replaying a history on a fresh
//! implementation; states are deduplicated by a digest of the whole
//! implementation state (hook `Runtime::verif_digest`, optionally combined
//! with the reference model's state). Every transition is executed on the
//! real code and judged by the model's oracle.
//!
//! The search is deterministic: successors of a level are sorted by history
//! before representatives are chosen, so thread timing never changes the set
//! of states, the representative histories or the first counterexample.

use crate::engine::{hash64, Ctx, Sweep};
use serde_json::Value;
use std::collections::HashSet;
use std::sync::atomic::{AtomicUsize, Ordering};
use std::sync::Mutex;

pub struct Step {
    /// identity of the state reached
    pub digest: u64,
    /// violations of the oracle on the last transition: (signature, detail)
    pub viols: Vec<(String, String)>,
    /// hash of an observation that makes this transition non-trivial (if any)
    pub nontrivial: Option<u64>,
    /// do not expand this state further
    pub terminal: bool,
}

pub trait SpaceModel: Sync {
    fn name(&self) -> String;
    fn action_names(&self) -> Vec<String>;
    /// Replay `hist` (action indices) on a fresh system and judge the last
    /// transition. None = the last action is not enabled there.
    fn run(&self, hist: &[usize]) -> Option<Step>;
    fn max_depth(&self) -> usize;
    /// false = do not deduplicate (every history is its own state)
    fn dedup(&self) -> bool {
        true
    }
    fn crash_is_verdict(&self) -> bool {
        false
    }
}

pub struct SpaceSweep<M: SpaceModel> {
    pub model: M,
}

fn describe<M: SpaceModel>(m: &M, hist: &[usize]) -> String {
    let names = m.action_names();
    hist.iter().map(|a| names[*a].clone()).collect::<Vec<_>>().join(" | ")
}

impl<M: SpaceModel> SpaceSweep<M> {
    fn parse(&self, case: &str) -> Option<Vec<usize>> {
        let names = self.model.action_names();
        if case.is_empty() {
            return Some(vec![]);
        }
        case.split(" | ").map(|n| names.iter().position(|x| x == n)).collect()
    }
}

impl<M: SpaceModel> Sweep for SpaceSweep<M> {
    fn name(&self) -> String {
        self.model.name()
    }
    fn shards(&self) -> usize {
        1
    }
    fn crash_is_verdict(&self) -> bool {
        self.model.crash_is_verdict()
    }
    fn replay_case(&self, case: &Value, ctx: &mut Ctx) -> bool {
        let hist = match case.as_str().and_then(|s| self.parse(s)) {
            Some(h) => h,
            None => return false,
        };
        ctx.force_case(case.as_str().unwrap_or(""));
        match crate::engine::guard(|| self.model.run(&hist)) {
            Ok(Some(step)) => {
                for (sig, detail) in step.viols {
                    ctx.violation(&sig, detail);
                }
            }
            Ok(None) => {}
            Err(p) => ctx.violation(&crate::engine::panic_class(&p), p),
        }
        true
    }
    fn run_shard(&self, _shard: usize, ctx: &mut Ctx) {
        if ctx.mode != crate::engine::Mode::Normal {
            return;
        }
        let m = &self.model;
        let nact = m.action_names().len();
        let threads = crate::engine::threads();
        let mut seen: HashSet<u64> = HashSet::new();
        let mut frontier: Vec<Vec<usize>> = vec![vec![]];
        if let Some(s0) = m.run(&[]) {
            seen.insert(s0.digest);
        }
        let mut states = 1u64;
        let mut transitions = 0u64;
        for depth in 0..m.max_depth() {
            // all (history, action) pairs of this level: job j = (frontier[j / nact], action j % nact).
            // The frontier is kept in lexicographic order, so job order is the lexicographic order
            // of the extended histories: results are stored by job index in fixed-size chunks and
            // need neither their history nor a sort (16 bytes per transition instead of ~120).
            let total = frontier.len() * nact;
            const CHUNK: usize = 4096;
            let nchunks = (total + CHUNK - 1) / CHUNK;
            let next_chunk = AtomicUsize::new(0);
            // flags: 1 = enabled, 2 = terminal, 4 = has a non-trivial observation, 8 = has violations
            type Slim = (u64, u64, u8);
            let chunks: Mutex<Vec<(usize, Vec<Slim>)>> = Mutex::new(Vec::with_capacity(nchunks));
            let rare: Mutex<Vec<(usize, Vec<(String, String)>)>> = Mutex::new(vec![]);
            let hb = ctx.heartbeat();
            let frontier_ref = &frontier;
            std::thread::scope(|sc| {
                for _ in 0..threads.min(nchunks.max(1)) {
                    sc.spawn(|| loop {
                        let c = next_chunk.fetch_add(1, Ordering::Relaxed);
                        if c >= nchunks {
                            break;
                        }
                        let lo = c * CHUNK;
                        let hi = (lo + CHUNK).min(total);
                        let mut out: Vec<Slim> = Vec::with_capacity(hi - lo);
                        let mut h: Vec<usize> = vec![];
                        for j in lo..hi {
                            if let Some(s) = hb {
                                s.seq.fetch_add(1, Ordering::Relaxed);
                            }
                            h.clear();
                            h.extend_from_slice(&frontier_ref[j / nact]);
                            h.push(j % nact);
                            let step = match crate::engine::guard(|| m.run(&h)) {
                                Ok(Some(step)) => step,
                                Ok(None) => {
                                    out.push((0, 0, 0));
                                    continue;
                                }
                                Err(p) => Step { digest: 0, viols: vec![(crate::engine::panic_class(&p), p)], nontrivial: None, terminal: true },
                            };
                            let mut flags = 1u8;
                            if step.terminal {
                                flags |= 2;
                            }
                            if step.nontrivial.is_some() {
                                flags |= 4;
                            }
                            if !step.viols.is_empty() {
                                flags |= 8;
                                rare.lock().unwrap().push((j, step.viols));
                            }
                            out.push((step.digest, step.nontrivial.unwrap_or(0), flags));
                        }
                        chunks.lock().unwrap().push((c, out));
                    });
                }
            });
            let mut chunks = chunks.into_inner().unwrap();
            chunks.sort_by_key(|c| c.0);
            let mut rare = rare.into_inner().unwrap();
            rare.sort_by_key(|r| r.0);
            let mut rare = rare.into_iter().peekable();
            let mut next = vec![];
            for (c, out) in chunks {
                if let Some(s) = hb {
                    s.seq.fetch_add(1, Ordering::Relaxed);
                }
                for (k, (digest, nontrivial, flags)) in out.into_iter().enumerate() {
                    if flags & 1 == 0 {
                        continue;
                    }
                    let j = c * CHUNK + k;
                    transitions += 1;
                    ctx.acc.evals += 1;
                    if flags & 4 != 0 {
                        ctx.nontrivial(nontrivial);
                    }
                    let sample = ctx.acc.samples.len() < 3 && transitions % 7 == 1;
                    if flags & 8 != 0 || sample {
                        let mut h = frontier[j / nact].clone();
                        h.push(j % nact);
                        let desc = describe(m, &h);
                        if flags & 8 != 0 {
                            ctx.force_case(&desc);
                            while let Some((rj, _)) = rare.peek() {
                                if *rj != j {
                                    break;
                                }
                                let (_, viols) = rare.next().unwrap();
                                for (sig, detail) in viols {
                                    ctx.violation(&sig, detail);
                                }
                            }
                        }
                        if sample {
                            ctx.acc.samples.push(Value::String(desc));
                        }
                    }
                    if flags & 2 != 0 {
                        continue;
                    }
                    let d = if m.dedup() {
                        digest
                    } else {
                        let mut h = frontier[j / nact].clone();
                        h.push(j % nact);
                        hash64(&h)
                    };
                    if seen.insert(d) {
                        states += 1;
                        let mut h = frontier[j / nact].clone();
                        h.push(j % nact);
                        next.push(h);
                    }
                }
            }
            let _ = depth;
            ctx.count_n(&format!("{}:states_new_at_depth_{}", m.name(), depth + 1), next.len() as u64);
            frontier = next;
            if frontier.is_empty() {
                ctx.count(&format!("{}:search_closed_at_depth_{}", m.name(), depth + 1));
                break;
            }
        }
        ctx.acc.transitions += transitions;
        for d in seen {
            ctx.acc.states.insert(d);
        }
        let _ = states;
    }
}
