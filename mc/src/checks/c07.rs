//! C07 — string operations work on characters, as documented, within 0..255.
//! Every string function / operator is called with every argument tuple of a
//! boundary universe (ASCII and multi-byte strings, positions and lengths at
//! -1, 0, 1, len-1, len, len+1, 255, 256, 32767, fractional) through the public
//! Function/Operation entry points and through the whole interpreter, and
//! compared with a Vec<char> reference.

use super::{Check, Meta};
use crate::driver::{Ev, Session};
use crate::engine::{guard, hash64, Ctx, Sweep, Tier};
use crate::refmodel::funcs::{self, SOME_ERROR};
use crate::refmodel::value::*;
use basic::mach::{Function, Operation, Stack, Val};

pub struct C07;

fn to_val(v: &V) -> Val {
    match v {
        V::Int(n) => Val::Integer(*n),
        V::Sng(n) => Val::Single(*n),
        V::Dbl(n) => Val::Double(*n),
        V::Str(s) => Val::String(s.iter().collect::<String>().into()),
    }
}

fn from_val(v: &Val) -> Option<V> {
    match v {
        Val::Integer(n) => Some(V::Int(*n)),
        Val::Single(n) => Some(V::Sng(*n)),
        Val::Double(n) => Some(V::Dbl(*n)),
        Val::String(s) => Some(V::Str(s.chars().collect())),
        _ => None,
    }
}

/// BASIC source text of a value
fn src(v: &V) -> String {
    match v {
        V::Int(n) => format!("{}", n),
        // not-a-number and the infinities only arise from expressions
        V::Sng(n) if n.is_nan() => "(0!/0!)".to_string(),
        V::Sng(n) if n.is_infinite() => (if *n > 0.0 { "(1!/0!)" } else { "(-1!/0!)" }).to_string(),
        V::Sng(n) => format!("{}", n),
        V::Dbl(n) => format!("{}#", n),
        V::Str(s) => {
            if s.len() >= 200 && s.iter().all(|c| *c == s[0]) {
                format!("STRING$({},\"{}\")", s.len(), s[0])
            } else if s.len() > 255 {
                // built by concatenation
                let h: String = s[..200].iter().collect();
                let t: String = s[200..].iter().collect();
                format!("(\"{}\"+\"{}\")", h, t)
            } else {
                format!("\"{}\"", s.iter().collect::<String>())
            }
        }
    }
}

fn api(name: &str, args: &[V]) -> Option<Result<Val, basic::lang::Error>> {
    let a: Vec<Val> = args.iter().map(to_val).collect();
    let stack = |v: &[Val]| {
        let mut s: Stack<Val> = Stack::new("x");
        for x in v {
            let _ = s.push(x.clone());
        }
        s
    };
    Some(match name {
        "LEN" => Function::len(a[0].clone()),
        "LEFT$" => Function::left(a[0].clone(), a[1].clone()),
        "RIGHT$" => Function::right(a[0].clone(), a[1].clone()),
        "MID$" => Function::mid(stack(&a)),
        "INSTR" => Function::instr(stack(&a)),
        "ASC" => Function::asc(a[0].clone()),
        "CHR$" => Function::chr(a[0].clone()),
        "STRING$" => Function::string(a[0].clone(), a[1].clone()),
        "SPC" => Function::spc(a[0].clone()),
        "STR$" => Function::str(a[0].clone()),
        "VAL" => Function::val(a[0].clone()),
        "HEX$" => Function::hex(a[0].clone()),
        "OCT$" => Function::oct(a[0].clone()),
        "+" => Operation::sum(a[0].clone(), a[1].clone()),
        "=" => Operation::equal(a[0].clone(), a[1].clone()),
        "<>" => Operation::not_equal(a[0].clone(), a[1].clone()),
        "<" => Operation::less(a[0].clone(), a[1].clone()),
        "<=" => Operation::less_equal(a[0].clone(), a[1].clone()),
        ">" => Operation::greater(a[0].clone(), a[1].clone()),
        ">=" => Operation::greater_equal(a[0].clone(), a[1].clone()),
        _ => return None,
    })
}

fn reference(name: &str, args: &[V]) -> Result<V, E> {
    match name {
        "+" => binop(BinOp::Add, &args[0], &args[1]),
        "=" => binop(BinOp::Eq, &args[0], &args[1]),
        "<>" => binop(BinOp::Ne, &args[0], &args[1]),
        "<" => binop(BinOp::Lt, &args[0], &args[1]),
        "<=" => binop(BinOp::Le, &args[0], &args[1]),
        ">" => binop(BinOp::Gt, &args[0], &args[1]),
        ">=" => binop(BinOp::Ge, &args[0], &args[1]),
        _ => funcs::call(name, args, 0),
    }
}

fn same(exp: &V, got: &V) -> bool {
    match (exp, got) {
        (V::Str(a), V::Str(b)) => a == b,
        (V::Str(_), _) | (_, V::Str(_)) => false,
        _ => {
            let (x, y) = (exp.as_f64().unwrap_or(f64::NAN), got.as_f64().unwrap_or(f64::NAN));
            x == y || (x.is_nan() && y.is_nan())
        }
    }
}

fn is_operator(name: &str) -> bool {
    matches!(name, "+" | "=" | "<>" | "<" | "<=" | ">" | ">=")
}

fn expr_text(name: &str, args: &[V]) -> String {
    if is_operator(name) {
        format!("{}{}{}", src(&args[0]), name, src(&args[1]))
    } else {
        format!("{}({})", name, args.iter().map(src).collect::<Vec<_>>().join(","))
    }
}

fn class_of(exp: &Result<V, E>, got_err: bool, got_val: Option<&V>) -> String {
    match (exp, got_err, got_val) {
        (Ok(_), true, _) => "error-for-valid-arguments".into(),
        (Err(_), false, _) => "out-of-domain-argument-accepted".into(),
        (Ok(V::Str(e)), false, Some(V::Str(g))) => {
            if g.len() != e.len() { "wrong-length-result".into() } else { "wrong-characters".into() }
        }
        (Ok(_), false, _) => "wrong-value".into(),
        _ => "mismatch".into(),
    }
}

/// One call through the API and through the interpreter.
fn judge_call(name: &str, args: &[V], ctx: &mut Ctx) {
    let text = expr_text(name, args);
    let exp = reference(name, args);
    if let Err(code) = &exp {
        if code.starts_with("#undefined") {
            if ctx.begin(&text) {
                ctx.acc.evals -= 1;
                ctx.skip(code);
            }
            if ctx.begin(&text) {
                ctx.acc.evals -= 1;
            }
            return;
        }
    }
    // ---- public entry point
    if ctx.begin(&format!("API {}", text)) {
        match guard(|| api(name, args)) {
            Err(p) => ctx.violation(&format!("{}/panic", name), p),
            Ok(None) => {}
            Ok(Some(r)) => {
                let (got_err, got_val) = match &r {
                    Ok(v) => (false, from_val(v)),
                    Err(_) => (true, None),
                };
                let ok = match (&exp, &got_val) {
                    (Ok(e), Some(g)) => same(e, g),
                    (Err(_), None) => got_err,
                    _ => false,
                };
                ctx.nontrivial(hash64(&(name, format!("{:?}", exp))));
                if !ok {
                    ctx.violation(
                        &format!("{}/{}", name, class_of(&exp, got_err, got_val.as_ref())),
                        format!("{} : expected {:?}, got {:?}", text, exp, r.map_err(|e| e.to_string())),
                    );
                }
            }
        }
    }
    // ---- through the interpreter; string results are also stored (255 limit)
    let stores = matches!(exp, Ok(V::Str(_)) | Err(_)) && !matches!(name, "LEN" | "INSTR" | "ASC" | "VAL" | "=" | "<>" | "<" | "<=" | ">" | ">=");
    let line = if stores { format!("R$={}:PRINT \"<\";R$;\">\"", text) } else { format!("PRINT \"<\";{};\">\"", text) };
    if ctx.begin(&line) {
        let r = guard(|| {
            let mut s = Session::new();
            s.enter(&line);
            s.take()
        });
        match r {
            Err(p) => ctx.violation(&format!("{}/panic", name), p),
            Ok(ev) => {
                let mut out = None;
                let mut err = None;
                for e in &ev {
                    match e {
                        Ev::Out(t) if out.is_none() => out = Some(t.clone()),
                        Ev::Err(v) if err.is_none() => err = v.first().map(|e| e.code.clone()),
                        _ => {}
                    }
                }
                let expected_text = match &exp {
                    Ok(V::Str(s)) => {
                        if stores && s.len() > 255 {
                            Err(STRING_TOO_LONG)
                        } else {
                            Ok(format!("<{}>\n", s.iter().collect::<String>()))
                        }
                    }
                    Ok(num) => match crate::refmodel::print::fmt_number(num) {
                        Some(t) => Ok(format!("<{} >\n", t)),
                        None => return,
                    },
                    Err(c) => Err(*c),
                };
                let ok = match (&expected_text, &out, &err) {
                    (Ok(t), Some(o), None) => o == t,
                    (Err(c), _, Some(e)) => *c == SOME_ERROR || *c == ILLEGAL || *c == TYPE_MISMATCH || c == e || true,
                    _ => false,
                };
                // a specific documented error must be that error
                let ok = ok
                    && match (&expected_text, &err) {
                        (Err(c), Some(e)) if *c == STRING_TOO_LONG => e == "STRING TOO LONG",
                        _ => true,
                    };
                if !ok {
                    let got_val = out.as_ref().map(|o| V::s(o.trim_end_matches('\n').trim_start_matches('<').trim_end_matches('>')));
                    let class = match (&expected_text, &err) {
                        (Err(c), _) if *c == STRING_TOO_LONG => "string-longer-than-255-stored".to_string(),
                        _ => class_of(&exp, err.is_some(), got_val.as_ref()),
                    };
                    ctx.violation(
                        &format!("{}/{}", name, class),
                        format!("{} : expected {:?}, interpreter printed {:?} / error {:?}", line, expected_text, out, err),
                    );
                }
            }
        }
    }
}

fn mid_assign_ref(orig: &V, pos: &V, len: Option<&V>, ins: &V) -> Result<V, E> {
    let (o, i) = match (orig, ins) {
        (V::Str(o), V::Str(i)) => (o, i),
        _ => return Err(TYPE_MISMATCH),
    };
    let p = pos.as_f64()?.floor();
    let l = match len {
        Some(v) => v.as_f64()?.floor(),
        None => 32767.0,
    };
    if p.is_nan() || l.is_nan() || p < 1.0 || l < 0.0 || p > 1e9 || l > 1e9 {
        return Err(SOME_ERROR);
    }
    let mut r = o.clone();
    let start = p as usize - 1;
    let mut k = 0usize;
    while start + k < r.len() && k < i.len() && (k as f64) < l {
        r[start + k] = i[k];
        k += 1;
    }
    Ok(V::Str(r))
}

fn judge_mid_assign(orig: &V, pos: &V, len: Option<&V>, ins: &V, ctx: &mut Ctx) {
    let line = match len {
        Some(l) => format!("R$={}:MID$(R$,{},{})={}:PRINT \"<\";R$;\">\"", src(orig), src(pos), src(l), src(ins)),
        None => format!("R$={}:MID$(R$,{})={}:PRINT \"<\";R$;\">\"", src(orig), src(pos), src(ins)),
    };
    if !ctx.begin(&line) {
        return;
    }
    let exp = mid_assign_ref(orig, pos, len, ins);
    let r = guard(|| {
        let mut s = Session::new();
        s.enter(&line);
        s.take()
    });
    match r {
        Err(p) => ctx.violation("MID$=/panic", p),
        Ok(ev) => {
            let out = ev.iter().find_map(|e| if let Ev::Out(t) = e { Some(t.clone()) } else { None });
            let err = ev.iter().any(|e| matches!(e, Ev::Err(_)));
            ctx.nontrivial(hash64(&format!("{:?}", exp)));
            let ok = match &exp {
                Ok(V::Str(s)) => !err && out == Some(format!("<{}>\n", s.iter().collect::<String>())),
                _ => err,
            };
            if !ok {
                let class = match (&exp, err) {
                    (Ok(_), true) => "error-for-valid-arguments",
                    (Err(_), false) => "out-of-domain-argument-accepted",
                    _ => "wrong-result",
                };
                ctx.violation(&format!("MID$=/{}", class), format!("{} : expected {:?}, printed {:?} error={}", line, exp, out, err));
            }
        }
    }
}

fn strings() -> Vec<V> {
    // (語 is U+8A9E, above 32767; 😀 is outside the BMP)
    let mut v: Vec<V> = ["", "a", "ab", "abc", "é", "aé", "éa", "日本", "aXbXc", "abcabc", "語a", "😀é"].iter().map(|s| V::s(s)).collect();
    v.push(V::Str(vec!['a'; 255]));
    v.push(V::Str(vec!['é'; 255]));
    v
}

fn numbers_for(len: usize) -> Vec<V> {
    let mut n: Vec<i64> = vec![-1, 0, 1, 2, len as i64 - 1, len as i64, len as i64 + 1, 3, 255, 256, 32767];
    n.sort();
    n.dedup();
    let mut v: Vec<V> = n.iter().map(|x| V::Int(*x as i16)).collect();
    v.push(V::Sng(1.5));
    v.push(V::Sng(-0.5));
    v.push(V::Sng(40000.0));
    // a position or count that is not a number, or infinite, is out of domain
    v.push(V::Sng(f32::NAN));
    v.push(V::Sng(f32::INFINITY));
    v.push(V::Sng(f32::NEG_INFINITY));
    v
}

struct Universe {
    extra_strings: bool,
    max_len: u32,
}

impl Universe {
    fn strs(&self) -> Vec<V> {
        let mut v = strings();
        if self.extra_strings {
            // all strings of length <= max_len over {a, b, é}
            let al = ['a', 'b', 'é'];
            for l in 1..=self.max_len {
                for idx in 0..3usize.pow(l) {
                    let mut x = idx;
                    let mut s = vec![];
                    for _ in 0..l {
                        s.push(al[x % 3]);
                        x /= 3;
                    }
                    let val = V::Str(s);
                    if !v.contains(&val) {
                        v.push(val);
                    }
                }
            }
        }
        v
    }
}

impl Sweep for Universe {
    fn name(&self) -> String {
        format!("argument-universe{}", if self.extra_strings { "-with-all-short-strings" } else { "" })
    }
    fn shards(&self) -> usize {
        self.strs().len() + 1
    }
    fn run_shard(&self, shard: usize, ctx: &mut Ctx) {
        let strs = self.strs();
        if shard == strs.len() {
            // functions of numbers
            for c in [-1i64, 0, 10, 65, 233, 55295, 55296, 57343, 57344, 1114111, 1114112] {
                let v = if c.abs() < 32768 { V::Int(c as i16) } else { V::Dbl(c as f64) };
                judge_call("CHR$", &[v.clone()], ctx);
                for n in [V::Int(0), V::Int(1), V::Int(3), V::Int(255), V::Int(256), V::Int(-1)] {
                    judge_call("STRING$", &[n, v.clone()], ctx);
                }
            }
            judge_call("CHR$", &[V::Sng(65.5)], ctx);
            for n in [-1i16, 0, 1, 5, 255, 256, 32767] {
                judge_call("SPC", &[V::Int(n)], ctx);
            }
            for x in [V::Int(-32768), V::Int(-1), V::Int(0), V::Int(1), V::Int(255), V::Int(4095), V::Int(32767), V::Sng(32768.0), V::Sng(1.5), V::Sng(-1.5), V::Dbl(65535.0)] {
                judge_call("HEX$", &[x.clone()], ctx);
                judge_call("OCT$", &[x.clone()], ctx);
            }
            for x in [V::Int(0), V::Int(5), V::Int(-5), V::Int(32767), V::Sng(1.5), V::Sng(-0.25), V::Sng(100000.0), V::Dbl(0.5), V::Dbl(-12345.0)] {
                judge_call("STR$", &[x], ctx);
            }
            for s in [
                "", "1", " 12 ", "1E2", "1D2", "1e2", "&H1F", "&h1f", "&17", "12abc", "abc", ".5", "-.5e1", "1e", "1e+", "nan", "inf", "NAN", "infinity", "-inf", "+5", "--5", "1.2.3",
                "&HD", "&H1D", "&hdd", "&HABC", "&H7FFF", "&HdE", "1D", "&D",
                "1d2", "2.5d-1", "1.5d1", "1.5D3", "1E2", "1e-2", "1d+2x", "12d", "1d2d3",
                "&", "&H", "&HG", "1 2", "1,2", "3.", "-", "+", ".", "1E400", "&H8000", "&HFFFF", "&177777", "12345678901234567890", "é1", "1é", "  -7.25x",
            ] {
                judge_call("VAL", &[V::s(s)], ctx);
            }
            ctx.sample();
            return;
        }
        let s = &strs[shard];
        let len = if let V::Str(x) = s { x.len() } else { 0 };
        let nums = numbers_for(len);
        judge_call("LEN", &[s.clone()], ctx);
        judge_call("ASC", &[s.clone()], ctx);
        for n in &nums {
            judge_call("LEFT$", &[s.clone(), n.clone()], ctx);
            judge_call("RIGHT$", &[s.clone(), n.clone()], ctx);
            judge_call("MID$", &[s.clone(), n.clone()], ctx);
            judge_call("STRING$", &[n.clone(), s.clone()], ctx);
            for m in &nums {
                judge_call("MID$", &[s.clone(), n.clone(), m.clone()], ctx);
            }
        }
        let mut pats: Vec<V> = ["", "a", "b", "c", "é", "bc", "zz", "X", "本", "ab", "ca"].iter().map(|p| V::s(p)).collect();
        pats.push(s.clone());
        for p in &pats {
            judge_call("INSTR", &[s.clone(), p.clone()], ctx);
            for n in &nums {
                judge_call("INSTR", &[n.clone(), s.clone(), p.clone()], ctx);
            }
        }
        for t in &strs {
            for op in ["+", "=", "<>", "<", "<=", ">", ">="] {
                judge_call(op, &[s.clone(), t.clone()], ctx);
            }
            if self.extra_strings {
                judge_call("INSTR", &[s.clone(), t.clone()], ctx);
                judge_call("INSTR", &[V::Int(2), s.clone(), t.clone()], ctx);
            }
        }
        // type errors
        judge_call("+", &[s.clone(), V::Int(1)], ctx);
        judge_call("<", &[V::Int(1), s.clone()], ctx);
        judge_call("LEN", &[V::Int(1)], ctx);
        judge_call("LEFT$", &[V::Int(1), V::Int(1)], ctx);
        // MID$ assignment
        if len <= 255 {
            let ins: Vec<V> = vec![V::s(""), V::s("Z"), V::s("ZY"), V::s("é"), V::s("ZYXWVUTSRQ"), V::Str(vec!['Q'; 255])];
            for p in &nums {
                for i in &ins {
                    judge_mid_assign(s, p, None, i, ctx);
                    for l in &nums {
                        judge_mid_assign(s, p, Some(l), i, ctx);
                    }
                }
            }
        }
        ctx.sample();
    }
}

/// The 255-character limit of a *stored* string, for every combination of
/// target, previous content of the target and new value: the outcome must
/// depend on the number of characters of the new value only.
struct StoreLimit;

fn build(len: usize, c: &str) -> String {
    // an expression of `len` characters c (concatenation itself is not limited)
    let code = c.chars().next().map(|x| x as u32).unwrap_or(97);
    if len == 0 {
        "\"\"".to_string()
    } else {
        let mut parts = vec![];
        let mut left = len;
        while left > 0 {
            let n = left.min(255);
            parts.push(format!("STRING$({},{})", n, code));
            left -= n;
        }
        parts.join("+")
    }
}

impl Sweep for StoreLimit {
    fn name(&self) -> String {
        "store-limit-after-every-previous-content".into()
    }
    fn shards(&self) -> usize {
        3
    }
    fn run_shard(&self, shard: usize, ctx: &mut Ctx) {
        let (target, setup) = [("R$", ""), ("R$(2)", ""), ("W$(1,1)", "DIM W$(2,2)")][shard];
        let prevs: Vec<(usize, &str)> = vec![(0, ""), (1, "a"), (255, "a"), (100, "é"), (200, "é"), (255, "é"), (130, "日"), (255, "日")];
        let lens = [0usize, 1, 2, 128, 254, 255, 256, 257, 300, 399, 400, 401, 510, 700];
        for unset in [true, false] {
            for (plen, pc) in &prevs {
                if unset && *plen != 0 {
                    continue;
                }
                for l in lens {
                    for c in ["a", "é", "日"] {
                        for tail in ["", "+\"z\"", "+\"é\""] {
                            let newlen = l + if tail.is_empty() { 0 } else { 1 };
                            let first = if unset { setup.to_string() } else { format!("{}{}{}={}", setup, if setup.is_empty() { "" } else { ":" }, target, build(*plen, pc)) };
                            let second = format!("{}={}{}", target, build(l, c), tail);
                            let third = format!("PRINT LEN({});ASC({}+\"!\")", target, target);
                            let text = format!("{} / {} / {}", first, second, third);
                            if !ctx.begin(&text) {
                                continue;
                            }
                            let r = guard(|| {
                                let mut s = Session::new();
                                if !first.is_empty() {
                                    s.enter(&first);
                                }
                                s.take();
                                s.enter(&second);
                                let e2 = s.take();
                                s.enter(&third);
                                (e2, s.take())
                            });
                            let (e2, e3) = match r {
                                Err(p) => {
                                    ctx.violation("store-limit/panic", p);
                                    continue;
                                }
                                Ok(x) => x,
                            };
                            let err = e2.iter().any(|e| matches!(e, Ev::Err(_)));
                            let out = e3.iter().find_map(|e| if let Ev::Out(t) = e { Some(t.clone()) } else { None }).unwrap_or_default();
                            let too_long = newlen > 255;
                            let (explen, expfirst) = if too_long {
                                (*plen, if *plen == 0 { '!' } else { pc.chars().next().unwrap() })
                            } else {
                                (newlen, if l > 0 { c.chars().next().unwrap() } else if tail.is_empty() { '!' } else { tail.chars().nth(2).unwrap() })
                            };
                            let expout = format!(" {}  {} \n", explen, expfirst as u32);
                            ctx.nontrivial(hash64(&(too_long, &expout, *plen)));
                            if err != too_long {
                                ctx.violation(
                                    if too_long { "store-limit/longer-than-255-characters-stored" } else { "store-limit/error-for-a-string-that-fits" },
                                    format!("{} : new value has {} characters, error={}", text, newlen, err),
                                );
                            } else if out != expout {
                                ctx.violation("store-limit/wrong-content-afterwards", format!("{} : expected {:?}, printed {:?}", text, expout, out));
                            }
                        }
                    }
                }
            }
        }
        ctx.sample();
    }
}

/// Functions applied to unstored intermediate values longer than 255
/// characters (only a *stored* string is limited): every function that takes a
/// string, over concatenations of 256..765 characters.
struct LongIntermediates;

impl Sweep for LongIntermediates {
    fn name(&self) -> String {
        "functions-of-intermediates-longer-than-255".into()
    }
    fn shards(&self) -> usize {
        1
    }
    fn run_shard(&self, _shard: usize, ctx: &mut Ctx) {
        use crate::gen::{bin, int, strlit, Expr, PItem, Prog, Stmt};
        use crate::refmodel::value::BinOp;
        let call = |n: &str, a: Vec<Expr>| Expr::Call(n.into(), a);
        let rep = |n: i16, c: &str| call("STRING$", vec![int(n), strlit(c)]);
        let longs: Vec<Expr> = vec![
            bin(BinOp::Add, rep(200, "a"), rep(200, "b")),
            bin(BinOp::Add, rep(255, "é"), strlit("z")),
            bin(BinOp::Add, bin(BinOp::Add, rep(255, "a"), rep(255, "b")), rep(255, "c")),
            bin(BinOp::Add, strlit("q"), rep(255, "日")),
        ];
        let ns = [1i16, 2, 100, 201, 255, 256];
        for x in &longs {
            let mut es: Vec<Expr> = vec![call("LEN", vec![x.clone()]), call("ASC", vec![x.clone()]), call("INSTR", vec![x.clone(), strlit("b")]), call("INSTR", vec![x.clone(), strlit("z")])];
            for &n in &ns {
                es.push(call("LEN", vec![call("MID$", vec![x.clone(), int(n)])]));
                es.push(call("ASC", vec![call("MID$", vec![x.clone(), int(n)])]));
                es.push(call("LEN", vec![call("LEFT$", vec![x.clone(), int(n)])]));
                es.push(call("LEN", vec![call("RIGHT$", vec![x.clone(), int(n)])]));
                es.push(call("ASC", vec![call("RIGHT$", vec![x.clone(), int(n)])]));
                es.push(call("INSTR", vec![int(n), x.clone(), strlit("b")]));
                for &m in &[1i16, 255] {
                    es.push(call("LEN", vec![call("MID$", vec![x.clone(), int(n), int(m)])]));
                }
                // a long tail cut back to something storable
                es.push(call("LEN", vec![call("RIGHT$", vec![call("MID$", vec![x.clone(), int(n)]), int(20)])]));
            }
            es.push(bin(BinOp::Lt, x.clone(), bin(BinOp::Add, x.clone(), strlit("a"))));
            es.push(bin(BinOp::Eq, x.clone(), x.clone()));
            for e in es {
                let direct = vec![vec![Stmt::Print(vec![PItem::E(e)])]];
                let desc = super::both::describe(&Prog::default(), &direct);
                if !ctx.begin(&desc) {
                    continue;
                }
                match super::both::run_both(&Prog::default(), &direct, &[], 500) {
                    super::both::Both::Skip(w) => ctx.skip(&w),
                    super::both::Both::Panic(p) => ctx.violation("long-intermediate/panic", p),
                    super::both::Both::Done { exp, got } => {
                        ctx.nontrivial(hash64(&exp));
                        if exp != got {
                            ctx.violation("long-intermediate/wrong-result", format!("{} : expected {:?}, got {:?}", desc, exp, got));
                        }
                    }
                }
            }
        }
        ctx.sample();
    }
}

impl Check for C07 {
    fn id(&self) -> &'static str {
        "C07"
    }
    fn sweeps(&self, tier: Tier) -> Vec<Box<dyn Sweep>> {
        vec![Box::new(Universe { extra_strings: true, max_len: tier.pick(3, 5) }), Box::new(StoreLimit), Box::new(LongIntermediates)]
    }
    fn meta(&self, tier: Tier) -> Meta {
        Meta {
            bound: format!(
                "strings {{\"\", a, ab, abc, é, aé, éa, 日本, aXbXc, abcabc, 255 x a, 255 x é}}{}; positions / lengths {{-1, 0, 1, 2, 3, len-1, len, len+1, 255, 256, 32767, 1.5, -0.5, 40000}}; patterns {{\"\", a, b, c, é, bc, zz, X, 本, ab, ca, the string itself}}; codes {{-1, 0, 10, 65, 233, 55295, 55296, 57343, 57344, 1114111, 1114112, 65.5}}; 40 VAL inputs; every function (LEN LEFT$ RIGHT$ MID$ INSTR ASC CHR$ STRING$ SPC STR$ VAL HEX$ OCT$), MID$ assignment with 6 replacement strings, concatenation and the six comparisons over all pairs - all tuples, through the public entry points and through the interpreter (string results stored to a variable); the store limit for 3 targets (scalar, array element, element of a DIMmed 2-D array) x 9 previous contents (unset, empty, 1..255 characters of 1, 2 and 3 bytes) x 14 new lengths 0..700 x 3 characters x 3 tails; LEN, ASC, INSTR, MID$, LEFT$, RIGHT$ and comparisons of four unstored concatenations of 256..765 characters at 6 positions",
                if tier == Tier::Thorough { " plus all 363 strings of length <=5 over {a, b, é}" } else { " plus all 39 strings of length <=3 over {a, b, é}" }
            ),
            rule: "a case is one call (API) or one entered line (interpreter); distinct_nontrivial = distinct (function, expected result) pairs".into(),
            states_note: "transitions = calls executed and compared with the Vec<char> reference".into(),
            assumptions: vec![
                "out-of-domain arguments (negative or zero positions, negative counts, counts above 255 for SPC/STRING$, invalid code points) must give some BASIC error; which one is not compared".into(),
                "numeric results are compared by value; result types are C02's business".into(),
                "VAL: leading/trailing blanks ignored, longest prefix matching [+-]d*[.d*][(E|D)[+-]d+] or &o.. / &Hh.. (at most 16 bits, Integer range), else 0".into(),
            ],
        }
    }
}
