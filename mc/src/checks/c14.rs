//! C14 — RENUM preserves the program and rewrites every reference, or changes nothing.
//! Every link-clean program of up to k lines over line-number sets from
//! {0,5,10,20,100,65000} whose bodies come from every referencing form (and
//! decoys), times every RENUM argument triple of a boundary set, against a
//! reference renumbering computed on the harness's own line templates.

use super::{Check, Meta};
use crate::driver::{Ev, Session};
use crate::engine::{guard, hash64, Ctx, Sweep, Tier};
use std::collections::BTreeMap;

pub struct C14;

/// body template: text with {0} {1} for line-number operands
#[derive(Clone, Debug)]
struct Tpl {
    text: &'static str,
    refs: usize,
}

fn templates() -> Vec<Tpl> {
    let t = |text: &'static str, refs: usize| Tpl { text, refs };
    vec![
        t("GOTO {0}", 1),
        t("GOSUB {0}", 1),
        t("IF A THEN {0}", 1),
        t("IF A THEN PRINT 1 ELSE {0}", 1),
        t("IF A THEN {0} ELSE {1}", 2),
        t("IF A GOTO {0}", 1),
        t("ON A GOTO {0},{1}", 2),
        t("ON A GOSUB {0},{1}", 2),
        t("ON A GOTO {1},{0},{1}", 2),
        t("RESTORE {0}", 1),
        t("RESTORE", 0),
        t("RUN {0}", 1),
        t("RUN", 0),
        t("LIST {0}", 1),
        t("LIST {0}-{1}", 2),
        t("LIST {0}-", 1),
        t("LIST -{0}", 1),
        t("LIST", 0),
        t("DELETE {0}-{1}", 2),
        t("PRINT \"é日\":GOTO {0}", 1),
        t("PRINT \"€€€€\":ON A GOSUB {0},{1}:GOTO {1}", 2),
        t("A=10:GOSUB {0}:PRINT 20;10", 1),
        // decoys: numbers that are not line references
        t("PRINT 10;20;100", 0),
        t("FOR I=10 TO 20 STEP 5:NEXT", 0),
        t("DATA 10,20,100,5", 0),
        t("PRINT \"GOTO 10\":REM GOTO 10", 0),
        t("A(10)=20:B=100-5", 0),
        t("IF A=10 THEN PRINT 10 ELSE PRINT 20", 0),
        // literals of every spelling in front of the reference (columns are counted per listed token);
        // the last LATE templates are used for the first line only in programs of three lines
        t("IF X=&17 THEN {0} ELSE {1}", 2),
        t("Y=&7:Z=&HFF:GOSUB {0}", 1),
        t("Y=1E5+2.5#+3!+4%+.5:GOTO {0}", 1),
        t("IF A<=B OR A>=B OR A<>B THEN {0}", 1),
    ]
}

const LATE: usize = 4;

fn fill(t: &Tpl, r0: u32, r1: u32) -> String {
    t.text.replace("{0}", &r0.to_string()).replace("{1}", &r1.to_string())
}

fn number_sets(k: usize) -> Vec<Vec<u32>> {
    // (65529 is the last line number)
    let u = [0u32, 5, 10, 20, 100, 65529];
    let mut out = vec![];
    for mask in 1u32..(1 << u.len()) {
        if mask.count_ones() as usize == k {
            out.push((0..u.len()).filter(|i| mask & (1 << i) != 0).map(|i| u[i]).collect());
        }
    }
    out
}

/// (text of the command, new, old, step)
fn arg_triples(all: bool) -> Vec<(String, u32, u32, u32)> {
    let news: Vec<Option<u32>> = if all { vec![None, Some(0), Some(5), Some(10), Some(100), Some(65520), Some(65529)] } else { vec![None, Some(5), Some(100), Some(65520)] };
    let olds: Vec<Option<u32>> = if all { vec![None, Some(0), Some(5), Some(7), Some(10), Some(100)] } else { vec![None, Some(7), Some(10)] };
    let steps: Vec<Option<u32>> = if all { vec![None, Some(0), Some(1), Some(10), Some(65529)] } else { vec![None, Some(0), Some(1)] };
    let mut v = vec![];
    for n in &news {
        for o in &olds {
            for s in &steps {
                let mut text = String::from("RENUM");
                if n.is_some() || o.is_some() || s.is_some() {
                    text.push(' ');
                }
                if let Some(n) = n {
                    text.push_str(&n.to_string());
                }
                if o.is_some() || s.is_some() {
                    text.push(',');
                }
                if let Some(o) = o {
                    text.push_str(&o.to_string());
                }
                if s.is_some() {
                    text.push(',');
                    text.push_str(&s.unwrap().to_string());
                }
                v.push((text, n.unwrap_or(10), o.unwrap_or(0), s.unwrap_or(10)));
            }
        }
    }
    v
}

/// Reference: the new number of every line, or None if the request is invalid.
fn renumber(lines: &[u32], new: u32, old: u32, step: u32) -> Option<BTreeMap<u32, u32>> {
    let mut map = BTreeMap::new();
    let mut next = new as u64;
    let kept_max = lines.iter().filter(|l| **l < old).max().cloned();
    let moved: Vec<u32> = lines.iter().cloned().filter(|l| *l >= old).collect();
    if moved.is_empty() {
        // nothing to renumber: the identity
        for l in lines {
            map.insert(*l, *l);
        }
        return Some(map);
    }
    if let Some(k) = kept_max {
        if new <= k {
            return None; // would change the order of lines
        }
    }
    if step == 0 && moved.len() > 1 {
        return None; // two lines cannot share a number
    }
    for l in lines {
        if *l < old {
            map.insert(*l, *l);
        } else {
            if next > 65529 {
                return None;
            }
            map.insert(*l, next as u32);
            next += step as u64;
        }
    }
    Some(map)
}

struct Case {
    nums: Vec<u32>,
    tpls: Vec<usize>,
}

fn judge(case: &Case, cmd: &(String, u32, u32, u32), ctx: &mut Ctx) {
    let ts = templates();
    let k = case.nums.len();
    // references of line i point to the next and the previous line (cyclically)
    let body = |i: usize, map: &dyn Fn(u32) -> u32| -> String {
        let r0 = case.nums[(i + 1) % k];
        let r1 = case.nums[(i + k - 1) % k];
        fill(&ts[case.tpls[i]], map(r0), map(r1))
    };
    let before: Vec<String> = (0..k).map(|i| format!("{} {}", case.nums[i], body(i, &|n| n))).collect();
    let desc = format!("{} // {}", before.join(" / "), cmd.0);
    if !ctx.begin(&desc) {
        return;
    }
    let expect = renumber(&case.nums, cmd.1, cmd.2, cmd.3).map(|m| {
        let f = |n: u32| *m.get(&n).unwrap_or(&n);
        let mut v: Vec<(u32, String)> = (0..k).map(|i| (f(case.nums[i]), body(i, &f))).collect();
        v.sort_by_key(|x| x.0);
        v.iter().map(|(n, b)| format!("{} {}", n, b)).collect::<Vec<String>>()
    });
    let r = guard(|| {
        let mut s = Session::new();
        for l in &before {
            s.enter(l);
        }
        let typed = s.listing_text();
        s.take();
        // what the program does before renumbering (a short run; programs that list or delete
        // lines show numbers or change themselves and are left out)
        let behaves = !cmd.0.contains(',') && before.len() <= 2 && !before.iter().any(|l| l.contains("LIST") || l.contains("DELETE"));
        s.enter(&cmd.0);
        let ev = s.take();
        let after = s.listing_text();
        if behaves {
            // in a session of its own: RUN, RENUM, RUN
            let mut b = Session::with(50, 4);
            for l in &before {
                b.enter(l);
            }
            b.take();
            b.enter("RUN");
            let pre = super::common::strip_lines(&super::c01::render_impl(&b.take()).0);
            b.enter(&cmd.0);
            b.take();
            b.enter("RUN");
            let post = super::common::strip_lines(&super::c01::render_impl(&b.take()).0);
            if post != pre {
                return (typed, after, ev, format!("BEHAVIOUR before: {}", pre), format!("BEHAVIOUR after: {}", post));
            }
        }
        // what runs afterwards is the renumbered program: the same commands in a fresh
        // interpreter fed the new listing must give the same transcript
        let first = after.first().and_then(|l| l.split(' ').next()).unwrap_or("0").to_string();
        let cmds = [format!("GOTO {}", first), "TRON".to_string(), format!("RUN {}", first), "TROFF".to_string()];
        // (the argument triples with a comma only vary the numbering: executing after `RENUM` and `RENUM n` is enough)
        if cmd.0.contains(',') || before.len() > 2 {
            return (typed, after, ev, String::new(), String::new());
        }
        // (most of these programs jump in circles: 200 instructions per command are enough to tell)
        s.quantum = 50;
        s.max_calls = 4;
        let mut here = String::new();
        for c in &cmds {
            s.enter(c);
            here.push_str(&crate::driver::render(&s.take()));
            here.push('|');
        }
        let mut f = Session::with(50, 4);
        for l in &after {
            f.enter(l);
        }
        f.take();
        let mut fresh = String::new();
        for c in &cmds {
            f.enter(c);
            fresh.push_str(&crate::driver::render(&f.take()));
            fresh.push('|');
        }
        (typed, after, ev, here, fresh)
    });
    let site = ts.iter().enumerate().filter(|(i, _)| case.tpls.contains(i)).map(|(_, t)| t.text.split(' ').next().unwrap_or("")).collect::<Vec<_>>();
    let site = site.iter().find(|w| !["PRINT", "A=10:GOSUB", "FOR", "DATA", "A(10)=20:B=100-5"].contains(w)).cloned().unwrap_or("decoy");
    match r {
        Err(p) => ctx.violation(&format!("RENUM/{}", crate::engine::panic_class(&p)), format!("{} : {}", desc, p)),
        Ok((typed, after, ev, here, fresh)) => {
            let reported = ev.iter().any(|e| matches!(e, Ev::Err(_)));
            ctx.nontrivial(hash64(&(&expect, site)));
            if here != fresh {
                ctx.violation(
                    "RENUM/what-runs-is-not-the-renumbered-listing",
                    format!("{} : after RENUM, GOTO / TRON / RUN of the first line gave {:?}; a fresh interpreter holding the new listing {:?}", desc, here, fresh),
                );
            }
            match &expect {
                None => {
                    if after != typed {
                        ctx.violation(
                            &format!("RENUM/invalid-request-changes-program/{}", if cmd.3 == 0 { "step-0" } else { "order-or-range" }),
                            format!("{} : must fail and leave the program unchanged; got {:?}", desc, after),
                        );
                    }
                }
                Some(exp) => {
                    let unchanged_with_error = after == typed && reported;
                    if after != *exp && !unchanged_with_error {
                        // classify: which reference form was not rewritten / what else changed
                        let class = if after.len() != exp.len() {
                            "lines-lost".to_string()
                        } else {
                            let bad: Vec<String> = after.iter().zip(exp.iter()).filter(|(a, e)| a != e).map(|(a, e)| format!("{:?} instead of {:?}", a, e)).collect();
                            let _ = bad;
                            format!("wrong-line-text/{}", site)
                        };
                        ctx.violation(&format!("RENUM/{}", class), format!("{} : expected {:?}, got {:?} (error reported: {})", desc, exp, after, reported));
                    }
                }
            }
        }
    }
}

struct Programs {
    k: usize,
    all_args: bool,
}

impl Sweep for Programs {
    fn name(&self) -> String {
        format!("programs-{}-lines-{}-argument-triples", self.k, if self.all_args { "all" } else { "boundary" })
    }
    fn shards(&self) -> usize {
        number_sets(self.k).len() * templates().len()
    }
    fn run_shard(&self, shard: usize, ctx: &mut Ctx) {
        let sets = number_sets(self.k);
        let nt = templates().len();
        let nums = sets[shard / nt].clone();
        let first = shard % nt;
        let args = arg_triples(self.all_args);
        // (in the quick tier the six decoy templates are also left to the first line of three-line programs)
        let nr = if self.k >= 3 { nt - LATE - if self.all_args { 0 } else { 6 } } else { nt };
        let total = nr.pow(self.k as u32 - 1);
        for idx in 0..total {
            let mut tpls = vec![first];
            let mut x = idx;
            for _ in 1..self.k {
                tpls.push(x % nr);
                x /= nr;
            }
            // RESTORE needs DATA to be link-clean? no: RESTORE n only needs line n
            let case = Case { nums: nums.clone(), tpls };
            for a in &args {
                judge(&case, a, ctx);
            }
            if ctx.done() {
                return;
            }
        }
        if shard % 50 == 0 {
            ctx.sample();
        }
    }
}

/// RENUM is refused from inside a program and while compile errors are present
struct Refusals;

impl Sweep for Refusals {
    fn name(&self) -> String {
        "refusals".into()
    }
    fn shards(&self) -> usize {
        1
    }
    fn run_shard(&self, _shard: usize, ctx: &mut Ctx) {
        for (prog, cmd) in [
            (vec!["10 RENUM", "20 PRINT \"x\""], "RUN"),
            (vec!["10 PRINT \"a\":RENUM 100", "20 GOTO 10"], "RUN"),
            (vec!["10 GOTO 30", "20 PRINT \"x\""], "RENUM"),
            (vec!["10 WHILE A", "20 PRINT \"x\""], "RENUM 100"),
            (vec!["10 PRINT )", "20 GOTO 10"], "RENUM 100,10"),
            (vec!["10 GOTO 20", "20 GOTO 10"], "RENUM 100:PRINT \"after\""),
            (vec!["10 GOTO 20", "20 GOTO 10"], "RENUM 70000"),
            (vec!["10 GOTO 20", "20 GOTO 10"], "RENUM 10,20,70000"),
            (vec!["10 GOTO 20", "20 GOTO 10"], "RENUM 1.5"),
            (vec!["10 GOTO 20", "20 GOTO 10"], "RENUM A"),
        ] {
            let desc = format!("{} // {}", prog.join(" / "), cmd);
            if !ctx.begin(&desc) {
                continue;
            }
            let r = guard(|| {
                let mut s = Session::new();
                for l in &prog {
                    s.enter(l);
                }
                s.take();
                let before = s.listing_text();
                s.enter(cmd);
                let ev = s.take();
                (before, s.listing_text(), ev)
            });
            match r {
                Err(p) => ctx.violation(&format!("RENUM/{}", crate::engine::panic_class(&p)), format!("{} : {}", desc, p)),
                Ok((before, after, ev)) => {
                    let reported = ev.iter().any(|e| matches!(e, Ev::Err(_)));
                    ctx.nontrivial(hash64(&desc));
                    let ok_renum = cmd.starts_with("RENUM 100:PRINT");
                    if !ok_renum && (after != before || !reported) {
                        ctx.violation("RENUM/not-refused", format!("{} : listing {:?} -> {:?}, error reported: {}", desc, before, after, reported));
                    }
                    if ok_renum && after != vec!["100 GOTO 110".to_string(), "110 GOTO 100".to_string()] {
                        ctx.violation("RENUM/wrong-line-text/GOTO", format!("{} : got {:?}", desc, after));
                    }
                }
            }
        }
        ctx.sample();
    }
}

impl Check for C14 {
    fn id(&self) -> &'static str {
        "C14"
    }
    fn sweeps(&self, tier: Tier) -> Vec<Box<dyn Sweep>> {
        match tier {
            Tier::Quick => vec![
                Box::new(Refusals),
                Box::new(Programs { k: 1, all_args: true }),
                Box::new(Programs { k: 2, all_args: true }),
                Box::new(Programs { k: 3, all_args: false }),
            ],
            Tier::Thorough => vec![
                Box::new(Refusals),
                Box::new(Programs { k: 1, all_args: true }),
                Box::new(Programs { k: 2, all_args: true }),
                Box::new(Programs { k: 3, all_args: true }),
            ],
        }
    }
    fn meta(&self, tier: Tier) -> Meta {
        Meta {
            bound: format!(
                "programs of 1, 2 and 3 lines on every subset of the line numbers {{0,5,10,20,100,65000}}, every line body from 28 templates (GOTO, GOSUB, THEN n, ELSE n, THEN n ELSE m, IF..GOTO, ON..GOTO / ON..GOSUB lists, RESTORE n / RESTORE, RUN n / RUN, LIST in its five forms, DELETE a-b, references behind multi-byte string literals, and decoys: numbers in PRINT, LET, FOR, DATA, subscripts, strings and remarks), references pointing to the next and previous line; x all 210 argument triples new in {{-,0,5,10,100,65520,65529}}, old in {{-,0,5,7,10,100}}, step in {{-,0,1,10,65529}} for 1- and 2-line programs and {} triples for 3-line programs; plus 10 refusal cases (RENUM inside a program, with compile errors, with operands above 65529 or non-numeric)",
                tier.pick("a boundary subset of 36", "all 210")
            ),
            rule: "a case is (program, RENUM command); oracle: if the request is invalid (order would change, numbers collide or exceed 65529) the listing is byte-identical afterwards; otherwise it equals the reference renumbering (or is unchanged with an error reported); distinct_nontrivial = distinct (expected listing, referencing form)".into(),
            states_note: "transitions = RENUM commands executed and compared with the reference renumbering".into(),
            assumptions: vec![
                "renumbering an empty set of lines (old-start above every line) is the identity".into(),
                "a step of 0 is valid only when at most one line is renumbered".into(),
            ],
        }
    }
}
