//! C06 — variables and arrays are typed, zero-initialised, bounds-checked, never aliased.
//! Explicit-state search over sequences of assignments, DIM / ERASE,
//! DEFINT/SNG/DBL/STR, SWAP and CLEAR on a universe of scalar and array names;
//! after the last step of every history the whole universe is read back and
//! compared with the reference store.

use super::c01::{render_impl, render_ref};
use super::{Check, Meta};
use crate::driver::Session;
use crate::engine::{hash64, Sweep, Tier};
use crate::gen::*;
use crate::refmodel::interp::{End, Machine};
use crate::refmodel::value::V;
use crate::space::{SpaceModel, SpaceSweep, Step};
use std::collections::VecDeque;

pub struct C06;

fn lv(n: &str) -> LVal {
    LVal::Var(n.into())
}
fn arr(n: &str, subs: &[Expr]) -> LVal {
    LVal::Arr(n.into(), subs.to_vec())
}
fn sng(x: f32, s: &str) -> Expr {
    Expr::Lit(V::Sng(x), s.into())
}

const SCALARS: [&str; 12] = ["A", "A!", "A#", "A%", "A$", "AB", "AA", "A1", "F", "FA", "B", "B2"];

fn values(all: bool) -> Vec<Expr> {
    let mut v = vec![int(1), sng(1.5, "1.5"), strlit("x")];
    if all {
        v.extend([int(0), int(-1), sng(40000.0, "40000"), strlit("")]);
    }
    v
}

fn targets(all: bool) -> Vec<LVal> {
    let mut t: Vec<LVal> = SCALARS.iter().map(|n| lv(n)).collect();
    t.extend([
        arr("A", &[int(0)]),
        arr("A", &[int(1)]),
        arr("A", &[int(10)]),
        arr("A", &[int(11)]),
        arr("A%", &[int(3)]),
        arr("A$", &[int(2)]),
        arr("C", &[int(1), int(1)]),
        // last element of a row and first element of the next: distinct cells
        arr("C", &[int(0), int(10)]),
        arr("C", &[int(1), int(0)]),
        arr("C", &[int(1), int(11)]),
        arr("C", &[int(1), int(12)]),
        arr("C", &[int(11), int(2)]),
        arr("A1", &[int(2)]),
        arr("AA", &[int(1)]),
    ]);
    if all {
        t.extend([
            arr("A", &[int(-1)]),
            arr("A", &[sng(1.5, "1.5")]),
            arr("A", &[int(32767)]),
            arr("A", &[int(4)]),
            arr("A", &[int(1), int(1)]),
            arr("C", &[int(11), int(1)]),
            arr("C", &[int(3)]),
            arr("B", &[int(3)]),
            arr("C", &[int(2), int(2)]),
            arr("C", &[int(1), int(12)]),
        ]);
    }
    t
}

fn actions(all: bool) -> Vec<Stmt> {
    let mut a = vec![];
    for t in targets(all) {
        for v in values(all) {
            a.push(Stmt::Let(t.clone(), v));
        }
    }
    for (n, b) in [("A", vec![int(3)]), ("A", vec![int(0)]), ("A$", vec![int(3)]), ("C", vec![int(12), int(12)]), ("A1", vec![int(1)])] {
        a.push(Stmt::Dim(vec![(n.to_string(), b)]));
    }
    if all {
        for (n, b) in [("A", vec![int(10)]), ("A", vec![int(32767)]), ("B", vec![int(3), int(3), int(3)]), ("A%", vec![int(2)]), ("A", vec![int(-1)])] {
            a.push(Stmt::Dim(vec![(n.to_string(), b)]));
        }
    }
    for n in ["A", "A$", "C", "A1"] {
        a.push(Stmt::Erase(vec![n.to_string()]));
    }
    let types: Vec<&'static str> = if all { vec!["DEFINT", "DEFSNG", "DEFDBL", "DEFSTR"] } else { vec!["DEFINT", "DEFSTR"] };
    for w in types {
        for (f, t) in [('A', 'A'), ('A', 'B'), ('F', 'F'), ('A', 'Z'), ('B', 'B'), ('A', 'F')] {
            a.push(Stmt::DefType(w, f, t));
        }
    }
    let sw: Vec<LVal> = vec![lv("A"), lv("A%"), lv("A$"), lv("AB"), lv("B"), arr("A", &[int(1)]), arr("A", &[int(11)])];
    for x in &sw {
        for y in &sw {
            if x != y {
                a.push(Stmt::Swap(x.clone(), y.clone()));
            }
        }
    }
    a.push(Stmt::Clear);
    a
}

struct Model {
    label: &'static str,
    acts: Vec<Stmt>,
    depth: usize,
}

/// the read-back probe: every scalar, and elements of every array whose shape
/// the reference knows (reading an undimensioned array would dimension it)
fn probes(m: &Machine) -> Vec<Vec<Stmt>> {
    let mut items: Vec<PItem> = vec![];
    for n in SCALARS {
        if m.store.open.contains_key(n) {
            continue;
        }
        items.push(PItem::E(var(n)));
        items.push(PItem::Semi);
        items.push(PItem::E(strlit("|")));
        items.push(PItem::Semi);
    }
    let mut second: Vec<PItem> = vec![];
    for (name, a) in &m.store.arrays {
        if m.store.open.contains_key(&format!("{}()", name)) {
            continue;
        }
        // stored elements, the corners, and one step outside each bound
        let mut idxs: Vec<Vec<i16>> = a.elems.keys().cloned().collect();
        idxs.push(vec![0; a.dims.len()]);
        idxs.push(a.dims.clone());
        for d in 0..a.dims.len() {
            let mut o = a.dims.clone();
            if o[d] < 32767 {
                o[d] += 1;
                idxs.push(o);
            }
        }
        idxs.sort();
        idxs.dedup();
        for i in idxs {
            second.push(PItem::E(Expr::Arr(name.clone(), i.iter().map(|x| int(*x)).collect())));
            second.push(PItem::Semi);
            second.push(PItem::E(strlit("|")));
            second.push(PItem::Semi);
        }
    }
    // every array element the alphabet can name (aliasing shows when the *other* element is read)
    for t in targets(true) {
        if let LVal::Arr(n, subs) = t {
            if m.store.open.contains_key(&format!("{}()", n)) {
                continue;
            }
            second.push(PItem::E(Expr::Arr(n, subs)));
            second.push(PItem::Semi);
            second.push(PItem::E(strlit("|")));
            second.push(PItem::Semi);
        }
    }
    // one statement per item for arrays: an out-of-range subscript ends that line only
    let mut lines = vec![vec![Stmt::Print(items)]];
    for chunk in second.chunks(4) {
        lines.push(vec![Stmt::Print(chunk.to_vec())]);
    }
    lines
}

impl SpaceModel for Model {
    fn name(&self) -> String {
        self.label.to_string()
    }
    fn action_names(&self) -> Vec<String> {
        self.acts.iter().map(|s| s.render()).collect()
    }
    fn max_depth(&self) -> usize {
        self.depth
    }
    fn run(&self, hist: &[usize]) -> Option<Step> {
        let mut m = Machine::new(&Prog::default());
        let mut s = Session::new();
        let mut rq = VecDeque::new();
        let mut viols = vec![];
        let mut nontrivial = None;
        for (i, &ai) in hist.iter().enumerate() {
            let st = &self.acts[ai];
            let last = i + 1 == hist.len();
            m.ev.clear();
            let end = m.direct(&[st.clone()], &mut rq, 50);
            if let End::Undefined(_) = end {
                return Some(Step { digest: hash64(&("undefined", hist)), viols, nontrivial, terminal: true });
            }
            s.enter(&st.render());
            let got = render_impl(&s.take()).0;
            if !last {
                continue;
            }
            let exp = render_ref(&m.ev);
            let site = match st {
                Stmt::Let(LVal::Var(_), _) => "assign-scalar",
                Stmt::Let(..) => "assign-element",
                Stmt::Dim(_) => "DIM",
                Stmt::Erase(_) => "ERASE",
                Stmt::DefType(..) => "DEFtype",
                Stmt::Swap(..) => "SWAP",
                _ => "CLEAR",
            };
            if got != exp {
                viols.push((format!("{}/wrong-outcome", site), format!("{} : expected {:?}, got {:?}", st.render(), exp, got)));
            }
            // read the whole universe back
            let mut exp_all = String::new();
            let mut got_all = String::new();
            let plist = probes(&m);
            let mut undefined = false;
            for p in &plist {
                m.ev.clear();
                if let End::Undefined(_) = m.direct(p, &mut rq, 50) {
                    undefined = true;
                    break;
                }
                exp_all.push_str(&render_ref(&m.ev));
                s.enter(&render_stmts(p));
                got_all.push_str(&render_impl(&s.take()).0);
            }
            if !undefined {
                nontrivial = Some(hash64(&(site, &exp_all)));
                if exp_all != got_all {
                    viols.push((format!("{}/universe-differs-afterwards", site), format!("after {} : expected {:?}, got {:?}", st.render(), exp_all, got_all)));
                }
            }
        }
        // the probe has side effects (auto-dimension): the digest is taken from a clean replay
        let mut clean = Session::new();
        for &ai in hist {
            clean.enter(&self.acts[ai].render());
        }
        let terminal = !viols.is_empty();
        Some(Step { digest: hash64(&clean.rt.verif_digest()), viols, nontrivial, terminal })
    }
}

/// SWAP of operands of different types inside a program: TYPE MISMATCH, both
/// unchanged - also after CONT has resumed behind the failed statement.
struct SwapInProgram;

impl Sweep for SwapInProgram {
    fn name(&self) -> String {
        "mixed-type-SWAP-in-a-program-then-CONT".into()
    }
    fn shards(&self) -> usize {
        1
    }
    fn run_shard(&self, _shard: usize, ctx: &mut crate::engine::Ctx) {
        let ops: [(&str, &str, char); 7] = [("A%", "1", '%'), ("B!", "2.5", '!'), ("C#", "0.25#", '#'), ("D$", "\"s\"", '$'), ("E%(1)", "7", '%'), ("F!(2)", "3.5", '!'), ("G$(1)", "\"t\"", '$')];
        for (x, xv, xt) in ops {
            for (y, yv, yt) in ops {
                if xt == yt {
                    continue;
                }
                let assign = format!("{}={}:{}={}", x, xv, y, yv);
                let show = format!("PRINT {};\"|\";{}", x, y);
                let lines = [format!("10 {}:SWAP {},{}", assign, x, y), "20 PRINT \"after\";".to_string()];
                let desc = format!("{} / {} // RUN // {} // CONT // {}", lines[0], lines[1], show, show);
                if !ctx.begin(&desc) {
                    continue;
                }
                let r = crate::engine::guard(|| {
                    let mut b = Session::new();
                    b.enter(&assign);
                    b.take();
                    b.enter(&show);
                    let base = crate::driver::render(&b.take());
                    let mut s = Session::new();
                    for l in &lines {
                        s.enter(l);
                    }
                    s.take();
                    s.enter("RUN");
                    let run = crate::driver::render(&s.take());
                    s.enter(&show);
                    let before = crate::driver::render(&s.take());
                    s.enter("CONT");
                    let cont = crate::driver::render(&s.take());
                    s.enter(&show);
                    let after = crate::driver::render(&s.take());
                    (base, run, before, cont, after)
                });
                match r {
                    Err(p) => ctx.violation("SWAP-in-program/panic", p),
                    Ok((base, run, before, cont, after)) => {
                        ctx.nontrivial(hash64(&(&base, xt, yt)));
                        if !run.contains("TYPE MISMATCH") {
                            ctx.violation("SWAP-in-program/mixed-types-accepted", format!("{} : RUN gave {:?}", desc, run));
                        } else if before != base {
                            ctx.violation("SWAP-in-program/operands-changed-by-rejected-SWAP", format!("{} : expected {:?}, got {:?}", desc, base, before));
                        } else if after != base {
                            ctx.violation("SWAP-in-program/operands-changed-after-CONT", format!("{} : CONT gave {:?}; expected {:?}, got {:?}", desc, cont, base, after));
                        }
                    }
                }
            }
        }
        ctx.sample();
    }
}

impl Check for C06 {
    fn id(&self) -> &'static str {
        "C06"
    }
    fn sweeps(&self, tier: Tier) -> Vec<Box<dyn Sweep>> {
        match tier {
            Tier::Quick => vec![
                Box::new(SpaceSweep { model: Model { label: "full-alphabet", acts: actions(true), depth: 2 } }),
                Box::new(SpaceSweep { model: Model { label: "core-alphabet", acts: actions(false), depth: 3 } }),
                Box::new(SwapInProgram),
            ],
            Tier::Thorough => vec![
                Box::new(SpaceSweep { model: Model { label: "full-alphabet", acts: actions(true), depth: 3 } }),
                Box::new(SpaceSweep { model: Model { label: "core-alphabet", acts: actions(false), depth: 4 } }),
                Box::new(SwapInProgram),
            ],
        }
    }
    fn meta(&self, tier: Tier) -> Meta {
        Meta {
            bound: format!(
                "all histories of depth <={} over the full alphabet ({} statements: assignment of 7 values to 12 scalar names A A! A# A% A$ AB AA A1 F FA B B2 and 24 array elements incl. subscripts -1, 1.5, 10, 11, 32767, the last element of a row and the first of the next, and wrong dimension counts; 10 DIMs; 4 ERASEs; 24 DEFtype statements over A, A-B, F, A-Z, B, A-F; all 42 ordered SWAPs of 7 operands; CLEAR) and depth <={} over the core alphabet ({} statements), deduplicated by the full state digest; after the last step every scalar and every known array element, corner and just-outside subscript is read back; every mixed-type SWAP of 7 operands inside a program: TYPE MISMATCH, operands unchanged, also after CONT",
                tier.pick(2, 3),
                actions(true).len(),
                tier.pick(3, 4),
                actions(false).len()
            ),
            rule: "a case is one transition; compared: the outcome (error code) of the last statement and the read-back of the whole universe against refmodel/store.rs; distinct_nontrivial = distinct (statement kind, expected universe)".into(),
            states_note: "states = distinct full-state digests after a clean replay (the read-back probe auto-dimensions arrays and is not part of the state)".into(),
            assumptions: vec![
                "DEFtype: variables whose type changes are dropped; an undecorated variable whose type does not change but whose value is not of the new type may be kept or dropped (manual ambiguous) and is left out of the read-back".into(),
                "default dimension 10 per subscript on first use; a different number of subscripts is SUBSCRIPT OUT OF RANGE".into(),
            ],
        }
    }
}
