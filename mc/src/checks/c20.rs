//! C20 — branches resolve by line number, independent of program layout.
//! Metamorphic: every program of the bounded space is laid out in every
//! single (and, deeper, every pair of) layout transformation(s) and must run
//! to the same transcript up to the line numbers reported.

use super::common::*;
use super::progspace::{Level, ProgSweep};
use super::{Check, Meta};
use crate::engine::{hash64, Ctx, Sweep, Tier};
use crate::gen::*;

pub struct C20;

fn replies() -> Vec<String> {
    ["1", "2", "0", "3", "1", "2", "0", "3"].iter().map(|s| s.to_string()).collect()
}

fn contains(p: &[Stmt], f: &dyn Fn(&Stmt) -> bool) -> bool {
    p.iter().any(|s| {
        f(s) || match s {
            Stmt::If(_, t, e) => {
                [Some(t), e.as_ref()].into_iter().flatten().any(|b| match b {
                    Branch::Stmts(v) => contains(v, f),
                    _ => false,
                })
            }
            Stmt::IfGoto(_, _, Some(Branch::Stmts(v))) => contains(v, f),
            _ => false,
        }
    })
}

pub fn prog_contains(p: &Prog, f: &dyn Fn(&Stmt) -> bool) -> bool {
    p.lines.iter().any(|l| contains(&l.stmts, f))
}

fn has_line_refs(v: &[Stmt]) -> bool {
    contains(v, &|s| {
        matches!(
            s,
            Stmt::Goto(_) | Stmt::Gosub(_) | Stmt::OnGoto(..) | Stmt::OnGosub(..) | Stmt::IfGoto(..) | Stmt::Restore(Some(_))
        ) || matches!(s, Stmt::If(_, Branch::Line(_), _) | Stmt::If(_, _, Some(Branch::Line(_))))
    })
}

/// (name, transformed program)
pub fn transforms(p: &Prog, allow_split: bool) -> Vec<(String, Prog)> {
    let mut out = vec![];
    // (a) filler lines at every gap
    let nums = p.line_numbers();
    let mut gaps: Vec<u16> = vec![];
    for (i, n) in nums.iter().enumerate() {
        let prev = if i == 0 { 0 } else { nums[i - 1] };
        if n - prev >= 2 {
            gaps.push(prev + (n - prev) / 2);
        }
    }
    // a trailing line without code is traced under TRON (the implicit END is
    // attributed to it): undefined by the manual, not inserted then
    if !prog_contains(p, &|s| matches!(s, Stmt::Tron)) {
        gaps.push(nums.last().cloned().unwrap_or(0) + 3);
    }
    let tron = prog_contains(p, &|s| matches!(s, Stmt::Tron));
    for g in gaps {
        // a line that executes but does nothing; it allocates a local label,
        // which shifts every later label of the program
        if !tron {
            let mut q = p.clone();
            let noop = Stmt::If(int(0), Branch::Stmts(vec![Stmt::Print(vec![PItem::E(strlit("zz")), PItem::Semi])]), None);
            q.lines.push(Line { num: g, stmts: vec![noop] });
            q.lines.sort_by_key(|l| l.num);
            out.push((format!("insert-noop-if-line@{}", g), q));
        }
        for (nm, body) in [
            ("insert-rem-line", vec![Stmt::Rem("X".into())]),
            ("insert-tick-line", vec![Stmt::Raw("' Y".into())]),
            ("insert-empty-line", vec![Stmt::Empty, Stmt::Empty]),
        ] {
            let mut q = p.clone();
            q.lines.push(Line { num: g, stmts: body });
            q.lines.sort_by_key(|l| l.num);
            out.push((format!("{}@{}", nm, g), q));
        }
    }
    // (b) empty statements at statement boundaries
    for (li, l) in p.lines.iter().enumerate() {
        for pos in 0..=l.stmts.len() {
            if pos > 0 && matches!(l.stmts[pos - 1], Stmt::Rem(_) | Stmt::Raw(_)) {
                continue;
            }
            let mut q = p.clone();
            q.lines[li].stmts.insert(pos, Stmt::Empty);
            out.push((format!("empty-statement@{}:{}", l.num, pos), q));
        }
    }
    // (c) split a multi-statement line
    if allow_split {
        for (li, l) in p.lines.iter().enumerate() {
            for j in 1..l.stmts.len() {
                let a = l.stmts[..j].to_vec();
                let b = l.stmts[j..].to_vec();
                if render_stmts(&a).trim().is_empty() || render_stmts(&b).trim().is_empty() {
                    continue;
                }
                if a.iter().any(|s| s.is_if()) {
                    continue;
                }
                let newnum = l.num + j as u16;
                if p.lines.iter().any(|x| x.num == newnum) {
                    continue;
                }
                let mut q = p.clone();
                q.lines[li].stmts = a;
                q.lines.insert(li + 1, Line { num: newnum, stmts: b });
                out.push((format!("split-line@{}:{}", l.num, j), q));
            }
        }
    }
    out
}

fn kind(name: &str) -> &str {
    name.split('@').next().unwrap_or(name)
}

fn orig_line(n: u32) -> u32 {
    n - n % 10
}

fn judge_with(pairs: bool) -> impl Fn(&Prog, &mut Ctx) + Sync + Send {
    move |p: &Prog, ctx: &mut Ctx| {
        let has_tron = prog_contains(p, &|s| matches!(s, Stmt::Tron));
        let run = vec!["RUN".to_string()];
        let mut base: Option<Result<(String, bool), String>> = None;
        let firsts = transforms(p, !has_tron);
        let mut variants: Vec<(String, Prog)> = vec![];
        for (n1, q) in firsts {
            if pairs {
                for (n2, r) in transforms(&q, !has_tron) {
                    variants.push((format!("{}+{}", n1, n2), r));
                }
            }
            variants.push((n1, q));
        }
        for (name, q) in variants {
            let desc = format!("{}  =>[{}]  {}", p.text(), name, q.text());
            if !ctx.begin(&desc) {
                continue;
            }
            if base.is_none() {
                base = Some(session_text(&p.render(), &run, &replies()));
            }
            let b = match base.as_ref().unwrap() {
                Ok(b) => b.clone(),
                Err(_) => {
                    ctx.skip("baseline panics (C03's business)");
                    continue;
                }
            };
            match session_text(&q.render(), &run, &replies()) {
                Err(pn) => ctx.violation(&format!("{}/panic", kind(&name)), pn),
                Ok((t, cut)) => {
                    let mapped = (map_lines(&t, &orig_line), cut);
                    let bm = (map_lines(&b.0, &orig_line), b.1);
                    if !same_or_prefix(&bm, &mapped) {
                        let k: Vec<&str> = name.split('+').map(kind).collect();
                        ctx.violation(
                            &format!("{}/transcript-differs", k.join("+")),
                            format!("original gave {:?}, transformed gave {:?}", bm, mapped),
                        );
                    }
                    ctx.nontrivial(hash64(&(kind(&name), &b.0)));
                }
            }
            ctx.sample();
        }
        // (g) the way the listing was typed does not matter: a direct statement executed between the lines
        // (which compiles what is there so far), or lines typed in reverse order, give the same program
        {
            let lines = p.render();
            let desc = format!("{} typed with a direct statement after every line / in reverse order, then RUN", p.text());
            if lines.len() >= 2 && ctx.begin(&desc) {
                let plain = session_text(&lines, &run, &replies());
                let mut inter: Vec<String> = vec![];
                for l in &lines {
                    inter.push(l.clone());
                    inter.push("Z9=0".to_string());
                }
                inter.push("RUN".to_string());
                let a = session_text(&[], &inter, &replies());
                let mut rev: Vec<String> = lines.iter().rev().cloned().collect();
                rev.insert(1, "Z9=0".to_string());
                rev.push("RUN".to_string());
                let b = session_text(&[], &rev, &replies());
                // (the prompts after the silent direct statements are not part of the comparison)
                let unprompt = |r: Result<(String, bool), String>| r.map(|(t, c)| (t.replace("\u{1}READY\u{2}", ""), c));
                match (unprompt(plain), unprompt(a), unprompt(b)) {
                    (Ok(pl), Ok(a), Ok(b)) => {
                        if !same_or_prefix(&pl, &a) || !same_or_prefix(&pl, &b) {
                            ctx.violation("typing-history/transcript-differs", format!("typed plainly {:?}, with direct statements in between {:?}, in reverse order {:?}", pl, a, b));
                        }
                        ctx.nontrivial(hash64(&("typing", &pl.0)));
                    }
                    _ => ctx.skip("panic (C03's business)"),
                }
            }
        }
        // (f) a layout-only edit between two direct statements that read DATA: the read pointer is not moved by it
        if let Some(last) = p.lines.last() {
            let d = &last.stmts;
            let text = render_stmts(d);
            if contains(d, &|s| matches!(s, Stmt::Read(_))) && !has_line_refs(d) && !contains(d, &|s| matches!(s, Stmt::Rem(_) | Stmt::Data(_))) {
                let mut stored = p.clone();
                stored.lines.pop();
                let desc = format!("stored [{}]: `{}` twice vs with a filler line inserted / inserted and deleted in between", stored.text(), text);
                if ctx.begin(&desc) {
                    let a = session_text(&stored.render(), &[text.clone(), text.clone()], &replies());
                    let b = session_text(&stored.render(), &[text.clone(), "5 REM".to_string(), text.clone()], &replies());
                    let c = session_text(&stored.render(), &[text.clone(), "65000 PRINT \"zz\"".to_string(), "65000".to_string(), text.clone()], &replies());
                    match (a, b, c) {
                        (Ok(a), Ok(b), Ok(c)) => {
                            if !same_or_prefix(&a, &b) || !same_or_prefix(&a, &c) {
                                ctx.violation("edit-between-direct-reads/transcript-differs", format!("no edit {:?}, filler inserted {:?}, inserted and deleted {:?}", a, b, c));
                            }
                            ctx.nontrivial(hash64(&("edit-between", &a.0)));
                        }
                        _ => ctx.skip("panic in direct statement (C03's business)"),
                    }
                }
            }
        }
        // (d) stored program size under a direct statement, (e) direct list vs one-line program
        if let Some(last) = p.lines.last() {
            let d = &last.stmts;
            let text = render_stmts(d);
            // READ / RESTORE in a direct line use the stored program's DATA; DATA is illegal in a direct line
            if !text.trim().is_empty() && !has_line_refs(d) && !contains(d, &|s| matches!(s, Stmt::Rem(_) | Stmt::Read(_) | Stmt::Restore(_) | Stmt::Data(_))) {
                let mut stored = p.clone();
                stored.lines.pop();
                let direct = vec![text.clone()];
                let desc = format!("direct `{}` over stored [{}] vs over nothing / filler", text, stored.text());
                if ctx.begin(&desc) {
                    let a = session_text(&[], &direct, &replies());
                    let mut bigger = stored.render();
                    bigger.push("5 REM".into());
                    bigger.push("45 PRINT \"zz\"".into());
                    let b = session_text(&stored.render(), &direct, &replies());
                    let c = session_text(&bigger, &direct, &replies());
                    // ... and over a stored program that does not even link: the direct statement never enters it
                    let faulty = vec!["45 GOTO 46".to_string(), "47 WHILE 1".to_string()];
                    let e = session_text(&faulty, &direct, &replies());
                    if let (Ok(a), Ok(e)) = (&a, &e) {
                        if !same_or_prefix(a, e) {
                            ctx.violation("stored-program-size/transcript-differs", format!("empty store {:?}, over a program with link errors {:?}", a, e));
                        }
                    }
                    match (a, b, c) {
                        (Ok(a), Ok(b), Ok(c)) => {
                            if !same_or_prefix(&a, &b) || !same_or_prefix(&a, &c) {
                                ctx.violation(
                                    "stored-program-size/transcript-differs",
                                    format!("empty store {:?}, program {:?}, larger program {:?}", a, b, c),
                                );
                            }
                            ctx.nontrivial(hash64(&("direct", &a.0)));
                        }
                        _ => ctx.skip("panic in direct statement (C03's business)"),
                    }
                }
                if !contains(d, &|s| matches!(s, Stmt::Tron | Stmt::Def(..))) {
                    let desc = format!("direct `{}` vs `10 {}` + RUN", text, text);
                    if ctx.begin(&desc) {
                        let a = session_text(&[], &direct, &replies());
                        let b = session_text(&[format!("10 {}", text)], &run, &replies());
                        match (a, b) {
                            (Ok(a), Ok(b)) => {
                                let bs = (strip_lines(&b.0), b.1);
                                if !same_or_prefix(&a, &bs) {
                                    ctx.violation(
                                        "direct-vs-line/transcript-differs",
                                        format!("direct {:?}, as line 10 {:?}", a, bs),
                                    );
                                }
                                ctx.nontrivial(hash64(&("dvl", &a.0)));
                            }
                            _ => ctx.skip("panic (C03's business)"),
                        }
                    }
                }
            }
        }
    }
}

/// (h) the numbers themselves do not matter, only their order: a three-line
/// program that is entered from direct statements (GOTO / GOSUB / RUN n /
/// RESTORE n) and branches within itself behaves the same at every ascending
/// triple of boundary line numbers as at 10, 20, 30.
struct BoundaryNumbers;

const BOUNDARY_NUMS: [u32; 9] = [0, 1, 2, 9, 10, 32768, 65527, 65528, 65529];

fn boundary_triples() -> Vec<(u32, u32, u32)> {
    let mut v = vec![];
    for (i, a) in BOUNDARY_NUMS.iter().enumerate() {
        for (j, b) in BOUNDARY_NUMS.iter().enumerate().skip(i + 1) {
            for c in BOUNDARY_NUMS.iter().skip(j + 1) {
                v.push((*a, *b, *c));
            }
        }
    }
    v
}

fn boundary_program(a: u32, b: u32, c: u32) -> Vec<String> {
    vec![
        format!("{} DATA 1:PRINT \"a\";", a),
        format!("{} DATA 2:PRINT \"b\";:IF K<2 THEN K=K+1:ON K GOTO {},{}", b, c, a),
        format!("{} DATA 3:PRINT \"c\";:IF G=1 THEN G=0:RETURN", c),
    ]
}

fn boundary_directs(t: u32) -> Vec<Vec<String>> {
    vec![
        vec![format!("GOTO {}", t)],
        vec![format!("K=5:GOTO {}", t)],
        vec![format!("G=1:GOSUB {}:PRINT \"back\"", t)],
        vec![format!("K=5:G=1:GOSUB {}:PRINT \"back\"", t)],
        vec![format!("RUN {}", t)],
        vec![format!("RESTORE {}:READ Q:PRINT Q", t)],
        vec![format!("READ Q:RESTORE {}:READ R,S:PRINT Q;R;S", t)],
        vec![format!("IF 1 THEN {}", t)],
        vec![format!("ON 1 GOSUB {}:PRINT \"back\"", t), "PRINT K;G".to_string()],
        vec!["RUN".to_string(), format!("G=1:GOSUB {}", t), "CONT".to_string()],
        vec![format!("DELETE {}", t), "RUN".to_string()],
    ]
}

impl Sweep for BoundaryNumbers {
    fn name(&self) -> String {
        "boundary-line-numbers".into()
    }
    fn shards(&self) -> usize {
        boundary_triples().len()
    }
    fn run_shard(&self, shard: usize, ctx: &mut Ctx) {
        let (a, b, c) = boundary_triples()[shard];
        let nums = [a, b, c];
        let back = move |n: u32| -> u32 {
            if n == a {
                10
            } else if n == b {
                20
            } else if n == c {
                30
            } else {
                n
            }
        };
        for ti in 0..3 {
            let base_d = boundary_directs([10, 20, 30][ti]);
            let var_d = boundary_directs(nums[ti]);
            for (bd, vd) in base_d.iter().zip(var_d.iter()) {
                let desc = format!("[{}] then {:?}  vs the same at 10, 20, 30", boundary_program(a, b, c).join(" / "), vd);
                if !ctx.begin(&desc) {
                    continue;
                }
                let x = session_text(&boundary_program(10, 20, 30), bd, &replies());
                let y = session_text(&boundary_program(a, b, c), vd, &replies());
                match (x, y) {
                    (Ok(x), Ok(y)) => {
                        let ym = map_lines(&y.0, &back);
                        if x.1 {
                            ctx.skip("baseline does not terminate");
                        } else if y.1 {
                            ctx.violation("boundary-numbers/does-not-terminate", format!("at 10, 20, 30: {:?}; here: cut after {:?}", x.0, y.0));
                        } else if x.0 != ym {
                            ctx.violation("boundary-numbers/transcript-differs", format!("at 10, 20, 30: {:?}; here: {:?}", x.0, ym));
                        }
                        ctx.nontrivial(hash64(&("boundary", ti, &x.0)));
                    }
                    (Err(pn), _) | (_, Err(pn)) => ctx.violation("boundary-numbers/panic", pn),
                }
            }
        }
        ctx.sample();
    }
}

fn sweep0(n: usize, level: Level) -> Box<dyn Sweep> {
    Box::new(ProgSweep { label: "layout-single-from-line-0".into(), n, level, judge: Box::new(judge_with(false)), verdict_on_crash: false })
}

fn sweep(n: usize, level: Level, pairs: bool) -> Box<dyn Sweep> {
    Box::new(ProgSweep {
        label: if pairs { "layout-pairs".into() } else { "layout-single".into() },
        n,
        level,
        judge: Box::new(judge_with(pairs)),
        verdict_on_crash: false,
    })
}

impl Check for C20 {
    fn id(&self) -> &'static str {
        "C20"
    }
    fn sweeps(&self, tier: Tier) -> Vec<Box<dyn Sweep>> {
        match tier {
            Tier::Quick => vec![
                Box::new(BoundaryNumbers),
                sweep0(2, Level::Medium),
                sweep(1, Level::Full, true),
                sweep(2, Level::Full, false),
                sweep(2, Level::Medium, true),
                sweep(3, Level::Core, false),
                sweep(2, Level::Mixed, false),
            ],
            Tier::Thorough => vec![
                Box::new(BoundaryNumbers),
                sweep0(2, Level::Full),
                sweep0(3, Level::Core),
                sweep(1, Level::Full, true),
                sweep(2, Level::Full, true),
                sweep(3, Level::Medium, false),
                sweep(3, Level::Core, true),
                sweep(4, Level::Core, false),
                sweep(2, Level::Mixed, true),
                sweep(3, Level::Mixed, false),
            ],
        }
    }
    fn meta(&self, tier: Tier) -> Meta {
        Meta {
            bound: match tier {
                Tier::Quick => "programs of the C01 space: N=1 full alphabet with every pair of layout transformations, N=2 full with every single transformation, N=2 medium with every pair, N=3 core with every single one, N=2 over the mixed alphabet (DATA/READ/RESTORE, DEF FN, arrays, strings, SWAP, CLEAR, ERASE, INPUT) with every single one; transformations: REM / ' / empty filler line at every gap, empty statement at every statement boundary, split of a multi-statement line at every boundary, direct statement over empty / original / larger stored program, direct list vs one-line program; a three-line program entered by 11 direct command sequences (GOTO, GOSUB, ON GOSUB, IF THEN n, RUN n, RESTORE n, DELETE n, CONT) at each of its lines, at all 84 ascending triples of the line numbers 0 1 2 9 10 32768 65527 65528 65529 against the same at 10 20 30".into(),
                Tier::Thorough => "N<=2 full alphabet with every pair of transformations, N=3 medium single, N=3 core pairs, N=4 core single, N=2 mixed pairs, N=3 mixed single".into(),
            },
            rule: "a case is (program, transformation or pair); distinct_nontrivial = distinct (transformation kind, baseline transcript) pairs".into(),
            states_note: "differential: both sides are implementation traces; transitions = cases".into(),
            assumptions: vec![
                "line numbers in error events are mapped back through the transformation (n - n mod 10)".into(),
                "programs containing TRON are not split (the trace legitimately names the new line)".into(),
                "when a run is cut by the budget only the common prefix is compared".into(),
            ],
        }
    }
}
