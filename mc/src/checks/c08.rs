//! C08 — 16-bit Integer arithmetic is always checked.
//!
//! Exhaustive sweeps over the public `Operation` / `Function` entry points and
//! through the VM (`PRINT A% op B%`), judged by exact i64 arithmetic.

use super::{Buf, Check, Meta};
use crate::driver::{Ev, Session};
use crate::engine::{guard, hash64, Ctx, Step, Sweep, Tier};
use basic::mach::{Function, Operation, Val};
use serde_json::Value;
use std::convert::TryFrom;
use std::fmt::Write;

pub struct C08;

#[derive(Clone, Copy, PartialEq, Eq, Debug)]
enum Op {
    Add,
    Sub,
    Mul,
    DivInt,
    Mod,
    Pow,
}

const OPS: [Op; 6] = [Op::Add, Op::Sub, Op::Mul, Op::DivInt, Op::Mod, Op::Pow];

impl Op {
    fn name(self) -> &'static str {
        match self {
            Op::Add => "+",
            Op::Sub => "-",
            Op::Mul => "*",
            Op::DivInt => "\\",
            Op::Mod => "MOD",
            Op::Pow => "^",
        }
    }
    fn site(self) -> &'static str {
        match self {
            Op::Add => "sum",
            Op::Sub => "subtract",
            Op::Mul => "multiply",
            Op::DivInt => "divint",
            Op::Mod => "remainder",
            Op::Pow => "power",
        }
    }
    fn call(self, a: Val, b: Val) -> Result<Val, basic::lang::Error> {
        match self {
            Op::Add => Operation::sum(a, b),
            Op::Sub => Operation::subtract(a, b),
            Op::Mul => Operation::multiply(a, b),
            Op::DivInt => Operation::divint(a, b),
            Op::Mod => Operation::remainder(a, b),
            Op::Pow => Operation::power(a, b),
        }
    }
}

#[derive(Clone, Copy, PartialEq, Eq, Debug)]
enum Exp {
    Val(i16),
    Overflow,
    DivZero,
    /// outside the property (e.g. negative exponent: floating result)
    NotInteger,
}

fn fit(v: i64) -> Exp {
    if v >= -32768 && v <= 32767 {
        Exp::Val(v as i16)
    } else {
        Exp::Overflow
    }
}

fn expect(op: Op, a: i16, b: i16) -> Exp {
    let (x, y) = (a as i64, b as i64);
    match op {
        Op::Add => fit(x + y),
        Op::Sub => fit(x - y),
        Op::Mul => fit(x * y),
        Op::DivInt => {
            if y == 0 {
                Exp::DivZero
            } else {
                fit(x / y)
            }
        }
        Op::Mod => {
            if y == 0 {
                Exp::DivZero
            } else {
                fit(x % y)
            }
        }
        Op::Pow => {
            if y < 0 {
                return Exp::NotInteger;
            }
            let mut r: i64 = 1;
            for _ in 0..y {
                r *= x;
                if r.abs() > 1 << 40 {
                    return Exp::Overflow;
                }
                if r == 0 || r == 1 {
                    break;
                }
                if r == -1 {
                    // (-1)^y
                    return Exp::Val(if y % 2 == 0 { 1 } else { -1 });
                }
            }
            fit(r)
        }
    }
}

#[derive(PartialEq, Eq, Debug, Clone, Copy)]
enum Got {
    Val(i16),
    Overflow,
    DivZero,
    OtherError,
    OtherVal,
    Panic,
}

fn classify(r: Result<Result<Val, basic::lang::Error>, String>) -> Got {
    match r {
        Err(_) => Got::Panic,
        Ok(Ok(Val::Integer(n))) => Got::Val(n),
        Ok(Ok(_)) => Got::OtherVal,
        Ok(Err(e)) => {
            let mut b = Buf::new();
            let _ = write!(b, "{}", e);
            let s = b.as_str();
            if s.starts_with("?OVERFLOW") {
                Got::Overflow
            } else if s.starts_with("?DIVISION BY ZERO") {
                Got::DivZero
            } else {
                Got::OtherError
            }
        }
    }
}

fn agrees(exp: Exp, got: Got) -> bool {
    match (exp, got) {
        (Exp::Val(a), Got::Val(b)) => a == b,
        (Exp::Overflow, Got::Overflow) => true,
        (Exp::DivZero, Got::DivZero) => true,
        (Exp::NotInteger, Got::OtherVal) => true,
        (Exp::NotInteger, Got::Overflow) => true,
        _ => false,
    }
}

fn class(exp: Exp, got: Got) -> String {
    let g = match got {
        Got::Val(_) => match exp {
            Exp::Val(_) => "wrong-value",
            _ => "wrapped-or-unchecked-value",
        },
        Got::Overflow => "overflow",
        Got::DivZero => "division-by-zero",
        Got::OtherError => "other-error",
        Got::OtherVal => "non-integer-value",
        Got::Panic => "panic",
    };
    let e = match exp {
        Exp::Val(_) => "value",
        Exp::Overflow => "overflow",
        Exp::DivZero => "division-by-zero",
        Exp::NotInteger => "n/a",
    };
    format!("{}-instead-of-{}", g, e)
}

fn outcome_index(exp: Exp) -> usize {
    match exp {
        Exp::Val(v) => (v as i32 + 32768) as usize,
        Exp::Overflow => 65536,
        Exp::DivZero => 65537,
        Exp::NotInteger => 65538,
    }
}

struct Seen {
    bits: Vec<u64>,
}

impl Seen {
    fn new() -> Seen {
        Seen { bits: vec![0; 65539 / 64 + 1] }
    }
    fn set(&mut self, i: usize) {
        self.bits[i / 64] |= 1 << (i % 64);
    }
    fn flush(&self, tag: &str, ctx: &mut Ctx) {
        for (w, word) in self.bits.iter().enumerate() {
            let mut x = *word;
            while x != 0 {
                let b = x.trailing_zeros() as usize;
                x &= x - 1;
                ctx.nontrivial(hash64(&(tag, w * 64 + b)));
            }
        }
    }
}

pub fn boundary() -> Vec<i16> {
    let mut v: Vec<i32> = vec![];
    for base in [0i32, 1, 2, 3, 7, 10, 16, 100, 127, 128, 181, 182, 255, 256, 1000, 16383, 16384, 32766, 32767] {
        v.push(base);
        v.push(-base);
    }
    v.extend([-32768, -32767, -16385, -183, 5, -5, 11, -11, 13, 15, 31, 32, 63, 64, 4096, -4096, 8191, 8192, -8192, 12345, -12345, 21845, -21846, 30000, -30000, 257, -129]);
    v.sort();
    v.dedup();
    v.iter().map(|x| *x as i16).collect()
}

fn run_binary(op: Op, a: i16, b: i16, ctx: &mut Ctx, seen: &mut Seen) {
    match ctx.begin_fast() {
        Step::Skip => return,
        Step::Describe => {
            ctx.described = Some(Value::String(format!(
                "Operation::{}(Integer({}), Integer({}))  i.e. PRINT {} {} {}",
                op.site(), a, b, a, op.name(), b
            )));
            return;
        }
        Step::Run => {}
    }
    let exp = expect(op, a, b);
    seen.set(outcome_index(exp));
    let got = classify(guard(|| op.call(Val::Integer(a), Val::Integer(b))));
    if !agrees(exp, got) {
        ctx.violation_case(
            &format!("{}/{}", op.site(), class(exp, got)),
            format!("expected {:?}, implementation gave {:?}", exp, got),
            Value::String(format!("{} {} {}", a, op.name(), b)),
        );
    }
}

/// unary: negate, ABS over all 65536 Integers; INT/FIX/CINT/SGN must keep an Integer exact
struct Unary;

impl Sweep for Unary {
    fn name(&self) -> String {
        "unary-all-i16".into()
    }
    fn shards(&self) -> usize {
        256
    }
    fn run_shard(&self, shard: usize, ctx: &mut Ctx) {
        let mut seen = Seen::new();
        for lo in 0..256usize {
            let a = ((shard << 8) | lo) as u16 as i16;
            for f in 0..6 {
                let name = ["negate", "abs", "int", "fix", "cint", "sgn"][f];
                match ctx.begin_fast() {
                    Step::Skip => continue,
                    Step::Describe => {
                        ctx.described = Some(Value::String(format!("{}(Integer({}))", name, a)));
                        continue;
                    }
                    Step::Run => {}
                }
                let x = a as i64;
                let exp = match f {
                    0 => fit(-x),
                    1 => fit(x.abs()),
                    2 | 3 | 4 => fit(x),
                    _ => fit(x.signum()),
                };
                seen.set(outcome_index(exp));
                let got = classify(guard(|| match f {
                    0 => Operation::negate(Val::Integer(a)),
                    1 => Function::abs(Val::Integer(a)),
                    2 => Function::int(Val::Integer(a)),
                    3 => Function::fix(Val::Integer(a)),
                    4 => Function::cint(Val::Integer(a)),
                    _ => Function::sgn(Val::Integer(a)),
                }));
                if !agrees(exp, got) {
                    ctx.violation_case(
                        &format!("{}/{}", name, class(exp, got)),
                        format!("expected {:?}, implementation gave {:?}", exp, got),
                        Value::String(format!("{}({})", name, a)),
                    );
                }
            }
        }
        seen.flush("unary", ctx);
        if shard == 0 {
            ctx.acc.samples.push(Value::String("negate(Integer(-32768))".into()));
        }
    }
}

/// every operator × every boundary value × all 65536 partners, both orders
struct Rows {
    b: Vec<i16>,
}

impl Sweep for Rows {
    fn name(&self) -> String {
        "binary-rows-and-columns".into()
    }
    fn shards(&self) -> usize {
        OPS.len() * self.b.len()
    }
    fn run_shard(&self, shard: usize, ctx: &mut Ctx) {
        let op = OPS[shard / self.b.len()];
        let bv = self.b[shard % self.b.len()];
        let mut seen = Seen::new();
        for k in 0..65536u32 {
            let a = k as u16 as i16;
            if op == Op::Pow {
                // base bv with every exponent 0..=32767; every base with exponents from the boundary set
                if a >= 0 {
                    run_binary(op, bv, a, ctx, &mut seen);
                }
                if bv >= 0 {
                    run_binary(op, a, bv, ctx, &mut seen);
                }
            } else {
                run_binary(op, a, bv, ctx, &mut seen);
                run_binary(op, bv, a, ctx, &mut seen);
            }
        }
        seen.flush(op.site(), ctx);
        if shard % 97 == 0 {
            ctx.acc.samples.push(Value::String(format!("x {} {} and {} {} x for all 65536 x", op.name(), bv, bv, op.name())));
        }
    }
}

/// all 2^32 operand pairs per operator
struct Full;

const FULL_OPS: [Op; 5] = [Op::Add, Op::Sub, Op::Mul, Op::DivInt, Op::Mod];

impl Sweep for Full {
    fn name(&self) -> String {
        "binary-all-pairs".into()
    }
    fn shards(&self) -> usize {
        FULL_OPS.len() * 1024
    }
    fn run_shard(&self, shard: usize, ctx: &mut Ctx) {
        let op = FULL_OPS[shard / 1024];
        let hi = shard % 1024;
        let mut seen = Seen::new();
        for lo in 0..64usize {
            let a = ((hi << 6) | lo) as u16 as i16;
            for k in 0..65536u32 {
                run_binary(op, a, k as u16 as i16, ctx, &mut seen);
            }
        }
        seen.flush(op.site(), ctx);
    }
}

/// every base with exponents 0..=20 (beyond 15 only 0, ±1 do not overflow)
struct PowFull;

impl Sweep for PowFull {
    fn name(&self) -> String {
        "power-all-bases-exponents-0-to-20".into()
    }
    fn shards(&self) -> usize {
        256
    }
    fn run_shard(&self, shard: usize, ctx: &mut Ctx) {
        let mut seen = Seen::new();
        for lo in 0..256usize {
            let a = ((shard << 8) | lo) as u16 as i16;
            for e in 0..=20i16 {
                run_binary(Op::Pow, a, e, ctx, &mut seen);
            }
        }
        seen.flush("power", ctx);
    }
}

fn conv_expect(v: f64) -> Exp {
    if v.is_nan() {
        return Exp::Overflow;
    }
    let f = v.floor();
    if f >= -32768.0 && f <= 32767.0 {
        Exp::Val(f as i16)
    } else {
        Exp::Overflow
    }
}

fn run_conv(val: Val, v: f64, text: &dyn Fn() -> String, ctx: &mut Ctx, seen: &mut Seen) {
    for f in 0..6 {
        let name = ["cint", "try_from", "divint-by-1", "and-minus-1", "1-divint-by", "7-mod"][f];
        match ctx.begin_fast() {
            Step::Skip => continue,
            Step::Describe => {
                ctx.described = Some(Value::String(format!("{} of {}", name, text())));
                continue;
            }
            Step::Run => {}
        }
        // as a divisor: converted first, then the 16-bit rule (a divisor that floors to 0 is a division by zero)
        let exp = match (f, conv_expect(v)) {
            (4, Exp::Val(0)) | (5, Exp::Val(0)) => Exp::DivZero,
            (4, Exp::Val(d)) => fit(1 / d as i64),
            (5, Exp::Val(d)) => fit(7 % d as i64),
            (_, e) => e,
        };
        seen.set(outcome_index(exp));
        let val = val.clone();
        let got = classify(guard(|| match f {
            0 => Function::cint(val),
            1 => i16::try_from(val).map(Val::Integer),
            2 => Operation::divint(val, Val::Integer(1)),
            3 => Operation::and(val, Val::Integer(-1)),
            4 => Operation::divint(Val::Integer(1), val),
            _ => Operation::remainder(Val::Integer(7), val),
        }));
        if !agrees(exp, got) {
            ctx.violation_case(
                &format!("float-to-integer/{}/{}", name, class(exp, got)),
                format!("expected {:?}, implementation gave {:?}", exp, got),
                Value::String(format!("{} of {}", name, text())),
            );
        }
    }
}

const LIMITS: [f64; 10] = [-32769.0, -32768.0, -1.0, 0.0, 1.0, 32767.0, 32768.0, 65535.0, 65536.0, -65536.0];

/// ±N ulp neighbourhoods of the conversion limits in f32 and f64, plus specials
struct ConvNear {
    ulps: i64,
}

impl Sweep for ConvNear {
    fn name(&self) -> String {
        format!("float-to-integer-neighbourhoods-{}ulp", self.ulps)
    }
    fn shards(&self) -> usize {
        LIMITS.len() * 2 + 1
    }
    fn run_shard(&self, shard: usize, ctx: &mut Ctx) {
        let mut seen = Seen::new();
        if shard == LIMITS.len() * 2 {
            for v in [f64::NAN, f64::INFINITY, f64::NEG_INFINITY, 1e300, -1e300, 3.4e38, -3.4e38, 0.5, -0.5, 1e-40, -1e-40, -0.0] {
                run_conv(Val::Double(v), v, &|| format!("Double({:?})", v), ctx, &mut seen);
                let s = v as f32;
                run_conv(Val::Single(s), s as f64, &|| format!("Single({:?})", s), ctx, &mut seen);
            }
            seen.flush("conv", ctx);
            return;
        }
        let lim = LIMITS[shard / 2];
        if shard % 2 == 0 {
            let base = (lim as f32).to_bits() as i64;
            for d in -self.ulps..=self.ulps {
                let bits = base + if lim < 0.0 { -d } else { d };
                if bits < 0 {
                    continue;
                }
                let s = f32::from_bits(bits as u32);
                run_conv(Val::Single(s), s as f64, &|| format!("Single({:?})", s), ctx, &mut seen);
            }
        } else {
            let base = lim.to_bits() as i64;
            for d in -self.ulps..=self.ulps {
                let bits = base.wrapping_add(if lim < 0.0 { -d } else { d });
                let v = f64::from_bits(bits as u64);
                run_conv(Val::Double(v), v, &|| format!("Double({:?})", v), ctx, &mut seen);
            }
        }
        seen.flush("conv", ctx);
        if shard == 0 {
            ctx.acc.samples.push(Value::String(format!("cint(Single(x)) for x within {} ulp of {}", self.ulps, lim)));
        }
    }
}

/// all 2^32 f32 bit patterns through CINT
struct ConvAllF32;

impl Sweep for ConvAllF32 {
    fn name(&self) -> String {
        "float-to-integer-all-f32".into()
    }
    fn shards(&self) -> usize {
        4096
    }
    fn run_shard(&self, shard: usize, ctx: &mut Ctx) {
        let mut seen = Seen::new();
        let base = (shard as u32) << 20;
        for lo in 0..(1u32 << 20) {
            let s = f32::from_bits(base | lo);
            match ctx.begin_fast() {
                Step::Skip => continue,
                Step::Describe => {
                    ctx.described = Some(Value::String(format!("cint(Single({:?}))", s)));
                    continue;
                }
                Step::Run => {}
            }
            let exp = conv_expect(s as f64);
            seen.set(outcome_index(exp));
            let got = classify(guard(|| Function::cint(Val::Single(s))));
            if !agrees(exp, got) {
                ctx.violation_case(
                    &format!("float-to-integer/cint/{}", class(exp, got)),
                    format!("expected {:?}, implementation gave {:?}", exp, got),
                    Value::String(format!("cint(Single({:?})) bits {:#x}", s, s.to_bits())),
                );
            }
        }
        seen.flush("conv", ctx);
    }
}

/// boundary pairs through the whole interpreter: A%=a:B%=b:PRINT A% op B%
struct Vm {
    b: Vec<i16>,
}

fn lit(v: i16) -> String {
    // -32768 cannot be written as an Integer literal; -32767-1 is exact
    if v == -32768 {
        "-32767-1".to_string()
    } else {
        format!("{}", v)
    }
}

impl Vm {
    fn judge(&self, line: &str, site: &str, exp: Exp, ctx: &mut Ctx) {
        if !ctx.begin(line) {
            return;
        }
        let res = guard(|| {
            let mut s = Session::new();
            s.enter(line);
            s.take()
        });
        let got = match &res {
            Err(_) => Got::Panic,
            Ok(ev) => {
                let mut g = Got::OtherError;
                for e in ev {
                    match e {
                        Ev::Out(t) => {
                            if let Ok(n) = t.trim().parse::<i16>() {
                                if t == &format!("{}{} \n", if n < 0 { "" } else { " " }, n) {
                                    g = Got::Val(n);
                                } else {
                                    g = Got::OtherVal;
                                }
                            } else {
                                g = Got::OtherVal;
                            }
                            break;
                        }
                        Ev::Err(v) => {
                            g = match v.first().map(|e| e.code.as_str()) {
                                Some("OVERFLOW") => Got::Overflow,
                                Some("DIVISION BY ZERO") => Got::DivZero,
                                _ => Got::OtherError,
                            };
                            break;
                        }
                        _ => {}
                    }
                }
                g
            }
        };
        ctx.nontrivial(hash64(&("vm", site, outcome_index(exp))));
        if !agrees(exp, got) {
            ctx.violation(
                &format!("{}/{}", site, class(exp, got)),
                format!("{} : expected {:?}, interpreter gave {:?} ({:?})", line, exp, got, res.map(|e| crate::driver::render(&e))),
            );
        }
    }
}

impl Sweep for Vm {
    fn name(&self) -> String {
        "through-the-interpreter".into()
    }
    fn shards(&self) -> usize {
        self.b.len()
    }
    fn run_shard(&self, shard: usize, ctx: &mut Ctx) {
        let a = self.b[shard];
        let x = a as i64;
        self.judge(&format!("A%={}:PRINT -A%", lit(a)), "negate", fit(-x), ctx);
        self.judge(&format!("A%={}:PRINT ABS(A%)", lit(a)), "abs", fit(x.abs()), ctx);
        self.judge(&format!("A%={}:B%=-A%:PRINT B%", lit(a)), "negate", fit(-x), ctx);
        // every unary minus is a checked negation, also when two of them are nested
        let twice = if fit(-x) == Exp::Overflow { Exp::Overflow } else { fit(x) };
        self.judge(&format!("A%={}:PRINT -(-A%)", lit(a)), "negate-twice", twice, ctx);
        self.judge(&format!("A%={}:PRINT - -A%", lit(a)), "negate-twice", twice, ctx);
        self.judge(&format!("A%={}:B%=0:PRINT B%+-(-A%)", lit(a)), "negate-twice", twice, ctx);
        self.judge(&format!("A%={}:PRINT -ABS(A%)", lit(a)), "negate-abs", if fit(x.abs()) == Exp::Overflow { Exp::Overflow } else { fit(-x.abs()) }, ctx);
        for &b in &self.b {
            for op in OPS {
                let exp = expect(op, a, b);
                if exp == Exp::NotInteger {
                    continue;
                }
                let line = format!("A%={}:B%={}:PRINT A% {} B%", lit(a), lit(b), op.name());
                self.judge(&line, op.site(), exp, ctx);
            }
        }
        // NEXT adds the step to an Integer counter: same 16-bit rule as +
        for &b in &self.b {
            for s in [1i64, -1, 2, -2, 255, 2000, -2000, 16384, 32767, -32768] {
                let mut i = x;
                let mut count = 0i64;
                let exp = loop {
                    count += 1;
                    if count > 6 {
                        break None;
                    }
                    let i2 = i + s;
                    if i2 < -32768 || i2 > 32767 {
                        break Some(Exp::Overflow);
                    }
                    i = i2;
                    if (s >= 0 && i > b as i64) || (s < 0 && i < b as i64) {
                        break Some(fit(count));
                    }
                };
                if let Some(exp) = exp {
                    let line = format!("C%=0:FOR I%={} TO {} STEP {}:C%=C%+1:NEXT:PRINT C%", lit(a), lit(b), lit(s as i16));
                    self.judge(&line, "for-next-counter", exp, ctx);
                    // the same step as a Single / Double (whole-valued): the sum is a float, the store converts it back
                    if s != -32768 {
                        for suffix in ["!", "#"] {
                            let step = if s < 0 { format!("-{}{}", -s, suffix) } else { format!("{}{}", s, suffix) };
                            let line = format!("C%=0:FOR I%={} TO {} STEP {}:C%=C%+1:NEXT:PRINT C%", lit(a), lit(b), step);
                            self.judge(&line, "for-next-counter-float-step", exp, ctx);
                        }
                    }
                }
            }
        }
        // Integer literals written with the % suffix: in range they are that Integer, out of range they are refused
        if shard == 0 {
            for (text, v) in [("32767%", 32767i64), ("0%", 0), ("255%", 255), ("32768%", 32768), ("40000%", 40000), ("65535%", 65535), ("65536%", 65536), ("99999%", 99999), ("123456789%", 123456789)] {
                for (neg, line) in [(false, format!("PRINT {}", text)), (true, format!("A%=-{}:PRINT A%", text)), (false, format!("A%={}:PRINT A%", text))] {
                    let val = if neg { -v } else { v };
                    if val >= -32768 && val <= 32767 && v <= 32767 {
                        self.judge(&line, "suffixed-literal", fit(val), ctx);
                        continue;
                    }
                    if !ctx.begin(&line) {
                        continue;
                    }
                    let res = guard(|| {
                        let mut s = Session::new();
                        s.enter(&line);
                        s.take()
                    });
                    ctx.nontrivial(hash64(&("vm", "suffixed-literal-out-of-range", text)));
                    match res {
                        Err(p) => ctx.violation("suffixed-literal/panic", p),
                        Ok(ev) => {
                            if !ev.iter().any(|e| matches!(e, Ev::Err(_))) {
                                ctx.violation("suffixed-literal/out-of-range-literal-accepted", format!("{} : gave {:?}", line, crate::driver::render(&ev)));
                            }
                        }
                    }
                }
            }
        }
        // float to Integer by assignment
        if shard == 0 {
            for (text, v) in [
                ("32767.5", 32767.5f64), ("32768", 32768.0), ("-32768.5", -32768.5), ("-32769", -32769.0),
                ("-32768.9", -32768.9), ("32767.99", 32767.99), ("1E10", 1e10), ("-1D300", -1e300),
                ("65535", 65535.0), ("65536", 65536.0), ("-0.5", -0.5), ("0.5", 0.5),
                // Doubles nearer to a limit than Single precision resolves
                ("-32768.001#", -32768.001), ("32767.9995#", 32767.9995), ("-32768.00001#", -32768.00001), ("32767.99999#", 32767.99999),
                ("-32767.99999#", -32767.99999), ("32766.99999#", 32766.99999), ("2.99999999#", 2.99999999), ("-0.00000001#", -0.00000001),
            ] {
                self.judge(&format!("A%={}:PRINT A%", text), "assign-float", conv_expect(v), ctx);
            }
        }
        ctx.sample();
    }
}

impl Check for C08 {
    fn id(&self) -> &'static str {
        "C08"
    }
    fn sweeps(&self, tier: Tier) -> Vec<Box<dyn Sweep>> {
        let b = boundary();
        let mut v: Vec<Box<dyn Sweep>> = vec![
            Box::new(Unary),
            Box::new(Rows { b: b.clone() }),
            Box::new(ConvNear { ulps: tier.pick(2000, 200000) }),
            Box::new(Vm { b: if tier == Tier::Quick { b.iter().cloned().filter(|x| [0, 1, -1, 2, -2, 3, 181, 182, 255, 256, 32767, -32767, -32768, 16384, -16384].contains(x)).collect() } else { b } }),
        ];
        if tier == Tier::Thorough {
            v.push(Box::new(PowFull));
            v.push(Box::new(ConvAllF32));
            v.push(Box::new(Full));
        }
        v
    }
    fn meta(&self, tier: Tier) -> Meta {
        Meta {
            bound: match tier {
                Tier::Quick => "unary: all 65536 Integers x {negate, ABS, INT, FIX, CINT, SGN}; binary {+,-,*,\\,MOD,^}: every row and column through each of the boundary values (one operand exhaustive over all 65536); float->Integer: +-2000 ulp around each conversion limit in f32 and f64 and specials (NaN, inf) through CINT, TryFrom, \\ and AND, and as the divisor of \\ and MOD; 15x15 boundary pairs x 6 operators through the whole interpreter, and FOR I%=a TO b STEP s .. NEXT for the same pairs x 10 steps (the counter update is an Integer addition)".into(),
                Tier::Thorough => "as quick, plus ALL 2^32 operand pairs for each of + - * \\ MOD, every base x exponents 0..20 for ^, ALL 2^32 f32 bit patterns through CINT, +-200000 ulp neighbourhoods, and all boundary pairs through the interpreter".into(),
            },
            rule: "cases are (operator, operand tuple); enumerated exhaustively in index order; distinct_nontrivial counts distinct (operator group, expected outcome) pairs where the outcome is the exact Integer result, OVERFLOW or DIVISION BY ZERO".into(),
            states_note: "states = distinct (operator, expected outcome) pairs; transitions = operator applications executed on the implementation".into(),
            assumptions: vec![
                "oracle: exact i64 arithmetic; \\ truncates toward zero and MOD takes the sign of the dividend (Microsoft BASIC semantics, also Rust's)".into(),
                "the crate is built with overflow checks and debug assertions on; a panic and a wrapped value are both violations, so the verdict does not depend on the profile".into(),
                "float->Integer conversion floors (CINT(-9.9) = -10 in the manual); NaN and infinities must be OVERFLOW".into(),
            ],
        }
    }
}
