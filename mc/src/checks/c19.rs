//! C19 — compile-time diagnostics point into the listed line and block execution.
//! Programs with one injected fault (a dangling line number in every
//! referencing form and list position, an unmatched WHILE / WEND at every
//! position, single-token damage of template lines), with every prefix
//! (nothing, multi-byte string, blanks, another statement) and line numbers of
//! one to five digits: every diagnostic must name the faulty line, cover
//! exactly the missing number / the keyword inside the listed text, agree with
//! the column printed in the message, and no way of entering the program may
//! run any of its lines, while direct statements that do not enter it work.

use super::{Check, Meta};
use crate::driver::{Ev, Session};
use crate::engine::{guard, hash64, Ctx, Sweep, Tier};

pub struct C19;

#[derive(Clone, Debug)]
struct Fault {
    /// statement text with the fault
    stmt: String,
    /// the text the diagnostic must cover exactly (None: only "inside the line")
    cover: Option<String>,
    /// expected error code (None: any compile-time error)
    code: Option<&'static str>,
    site: &'static str,
}

fn dangling(t: u32) -> Vec<Fault> {
    let n = t.to_string();
    let mk = |stmt: String, site: &'static str| Fault { stmt, cover: Some(n.clone()), code: Some("UNDEFINED LINE"), site };
    vec![
        mk(format!("GOTO {}", n), "GOTO"),
        mk(format!("GOSUB {}", n), "GOSUB"),
        mk(format!("IF A THEN {}", n), "THEN"),
        mk(format!("IF A THEN PRINT ELSE {}", n), "ELSE"),
        mk(format!("IF A THEN 10 ELSE {}", n), "ELSE"),
        mk(format!("IF A GOTO {}", n), "IF-GOTO"),
        mk(format!("IF A THEN GOSUB {}", n), "THEN-GOSUB"),
        mk(format!("IF A THEN IF B THEN {}", n), "nested-THEN"),
        mk(format!("ON A GOTO {}", n), "ON-GOTO"),
        mk(format!("ON A GOTO {},10", n), "ON-GOTO"),
        mk(format!("ON A GOTO 10,{}", n), "ON-GOTO"),
        mk(format!("ON A GOTO 10,{},30", n), "ON-GOTO"),
        mk(format!("ON A+1 GOSUB 10,30,{}", n), "ON-GOSUB"),
        mk(format!("ON A GOSUB {},30", n), "ON-GOSUB"),
        mk(format!("RESTORE {}", n), "RESTORE"),
        mk(format!("RUN {}", n), "RUN"),
        mk(format!("FOR I=1 TO 2:GOTO {}", n), "after-FOR"),
        mk(format!("A=1:GOSUB {}:B=2", n), "middle"),
        mk(format!("WHILE A:WEND:GOTO {}", n), "after-WHILE"),
        mk(format!("DEF FNA(X)=X:GOTO {}", n), "after-DEF"),
    ]
}

fn unmatched() -> Vec<Fault> {
    let mk = |stmt: &str, kw: &str, code: &'static str, site: &'static str| Fault { stmt: stmt.into(), cover: Some(kw.into()), code: Some(code), site };
    vec![
        mk("WHILE A", "WHILE", "WHILE WITHOUT WEND", "WHILE"),
        mk("A=1:WHILE A<2", "WHILE", "WHILE WITHOUT WEND", "WHILE"),
        mk("WHILE A:WHILE B:WEND", "WHILE", "WHILE WITHOUT WEND", "WHILE"),
        mk("IF A THEN WHILE B", "WHILE", "WHILE WITHOUT WEND", "WHILE"),
        mk("WEND", "WEND", "WEND WITHOUT WHILE", "WEND"),
        mk("A=1:WEND:B=2", "WEND", "WEND WITHOUT WHILE", "WEND"),
        mk("WHILE A:WEND:WEND", "WEND", "WEND WITHOUT WHILE", "WEND"),
        mk("IF A THEN PRINT ELSE WEND", "WEND", "WEND WITHOUT WHILE", "WEND"),
        mk("FOR I=1 TO 2:WEND:NEXT", "WEND", "WEND WITHOUT WHILE", "WEND"),
    ]
}

fn templates() -> Vec<&'static str> {
    vec![
        "PRINT A;B$,LEFT$(C$,2)",
        "IF A<2 THEN PRINT \"x\" ELSE GOTO 10",
        "FOR I=1 TO 10 STEP 2",
        "ON A GOSUB 10,30",
        "DIM A(3),B$(2,2)",
        "INPUT \"p\";A,B$",
        "DEF FNA(X,Y)=X+Y",
        "MID$(A$,2,1)=\"z\"",
        "A(1)=FNB(2)*(3+4)",
        "READ A:DATA 1,\"s\"",
        "SWAP A,B:NEXT I,J",
    ]
}

fn split_tokens(l: &str) -> Vec<String> {
    let cs: Vec<char> = l.chars().collect();
    let mut out = vec![];
    let mut i = 0;
    while i < cs.len() {
        let s = i;
        if cs[i] == '"' {
            i += 1;
            while i < cs.len() && cs[i] != '"' {
                i += 1;
            }
            i = (i + 1).min(cs.len());
        } else if cs[i].is_alphanumeric() {
            while i < cs.len() && (cs[i].is_alphanumeric() || "$%!#.".contains(cs[i])) {
                i += 1;
            }
        } else {
            i += 1;
        }
        out.push(cs[s..i].iter().collect());
    }
    out
}

fn damaged() -> Vec<Fault> {
    let mut v = vec![];
    for t in templates() {
        let toks = split_tokens(t);
        for i in 0..toks.len() {
            if toks[i] == " " {
                continue;
            }
            let mut d = toks.clone();
            d.remove(i);
            v.push(Fault { stmt: d.concat(), cover: None, code: None, site: "token-deleted" });
            for r in ["(", ")", ",", "THEN", "=", "\"q\"", "1"] {
                let mut d = toks.clone();
                d[i] = r.to_string();
                v.push(Fault { stmt: d.concat(), cover: None, code: None, site: "token-replaced" });
            }
        }
    }
    v
}

const PREFIXES: [&str; 7] = ["", "PRINT \"é日\":", "  ", "A=1:B=2:", "PRINT \"éé\";\"日\":X$=\"ü\":", "A=&17:B=&HF:", "IF A=&7 OR A=1E5 OR A=2.5# THEN A=&H1F:"];
const LINE_NUMBERS: [u32; 6] = [5, 20, 500, 5000, 50000, 65529];

fn char_slice(s: &str, a: usize, b: usize) -> Option<String> {
    let cs: Vec<char> = s.chars().collect();
    if a <= b && b <= cs.len() {
        Some(cs[a..b].iter().collect())
    } else {
        None
    }
}

/// One faulty program: marker line, faulty line N, marker line.
fn judge_program(f: &Fault, prefix: &str, n: u32, ctx: &mut Ctx) {
    // the other lines: 10 and 30 exist (valid targets in the templates), markers everywhere
    let mut lines: Vec<(u32, String)> = vec![(10, "PRINT \"m10\";".into()), (30, "PRINT \"m30\";:RETURN".into()), (n, format!("{}{}", prefix, f.stmt))];
    if n == 20 {
        // keep line numbers distinct
    }
    lines.sort_by_key(|l| l.0);
    lines.dedup_by_key(|l| l.0);
    let typed: Vec<String> = lines.iter().map(|(k, t)| format!("{} {}", k, t)).collect();
    let desc = typed.join(" / ");
    if !ctx.begin(&desc) {
        return;
    }
    let r = guard(|| {
        let mut s = Session::new();
        for l in &typed {
            s.enter(l);
        }
        s.take();
        let mut out: Vec<(String, Vec<Ev>)> = vec![];
        for cmd in ["RUN", "LIST", "RUN 10", "GOTO 10", "GOSUB 30", "ON 1 GOTO 10", "IF 1 THEN 30", "PRINT \"D\";"] {
            s.enter(cmd);
            out.push((cmd.to_string(), s.take()));
        }
        out
    });
    let out = match r {
        Err(p) => {
            ctx.violation(&format!("{}/panic", f.site), p);
            return;
        }
        Ok(o) => o,
    };
    ctx.nontrivial(hash64(&(f.site, prefix, n.to_string().len(), &f.stmt)));
    // ---- RUN: diagnostics
    let (_, run_ev) = &out[0];
    // compile-time diagnostics carry a column; a run-time error of a line that
    // is still legal BASIC does not
    let errs: Vec<&crate::driver::ErrInfo> = run_ev
        .iter()
        .flat_map(|e| if let Ev::Err(v) = e { v.iter().collect() } else { vec![] })
        .filter(|e| e.col.is_some() || f.cover.is_some())
        .collect();
    let listed_line = out[1].1.iter().find_map(|e| match e {
        Ev::List(t, cols) if t.starts_with(&format!("{} ", n)) => Some((t.clone(), cols.clone())),
        _ => None,
    });
    if errs.is_empty() {
        // damaged template lines may still be legal BASIC: then nothing to check
        if f.cover.is_some() {
            ctx.violation(&format!("{}/no-diagnostic", f.site), format!("{} : RUN reported nothing", desc));
        } else {
            ctx.count("damaged line is still legal");
        }
        return;
    }
    let (text, cols) = match listed_line {
        Some(x) => x,
        None => {
            ctx.violation(&format!("{}/faulty-line-not-listed", f.site), desc.clone());
            return;
        }
    };
    let text_len = text.chars().count();
    for e in &errs {
        if e.line != Some(n) {
            ctx.violation(&format!("{}/diagnostic-names-wrong-line", f.site), format!("{} : {} (expected line {})", desc, e.raw, n));
            continue;
        }
        if let Some(code) = f.code {
            if e.code != code {
                ctx.violation(&format!("{}/wrong-code", f.site), format!("{} : {} (expected {})", desc, e.raw, code));
            }
        }
        let (a, b) = e.range;
        if !(a <= b && b <= text_len) {
            ctx.violation(&format!("{}/range-outside-listed-line", f.site), format!("{} : range {}..{} in a line of {} characters ({:?})", desc, a, b, text_len, text));
            continue;
        }
        if let Some(cover) = &f.cover {
            let got = char_slice(&text, a, b);
            if got.as_deref() != Some(cover.as_str()) {
                ctx.violation(
                    &format!("{}/range-does-not-cover-the-culprit", f.site),
                    format!("{} : range {}..{} covers {:?} in {:?}, expected {:?}", desc, a, b, got, text, cover),
                );
            }
        }
        // the column shown in the message is the range start (1-based)
        if (a, b) != (0, 0) && e.col != Some(a + 1) {
            ctx.violation(&format!("{}/message-column-differs-from-range", f.site), format!("{} : message {:?}, range start {}", desc, e.raw, a));
        }
        // LIST underlines the same range
        if !cols.contains(&(a, b)) {
            ctx.violation(&format!("{}/LIST-underline-differs", f.site), format!("{} : LIST ranges {:?}, diagnostic range {}..{}", desc, cols, a, b));
        }
    }
    // ---- nothing of the program runs, whatever the way in
    for (cmd, ev) in &out {
        if cmd == "LIST" || cmd.starts_with("PRINT") {
            continue;
        }
        let printed: String = ev.iter().filter_map(|e| if let Ev::Out(t) = e { Some(t.clone()) } else { None }).collect();
        let reported = ev.iter().any(|e| matches!(e, Ev::Err(_)));
        if printed.contains('m') {
            ctx.violation(&format!("{}/program-with-errors-executes", cmd.split(' ').next().unwrap_or("")), format!("{} : {} printed {:?}", desc, cmd, printed));
        }
        if !reported {
            ctx.violation(&format!("{}/errors-not-reported-on-entry", cmd.split(' ').next().unwrap_or("")), format!("{} : {} reported nothing", desc, cmd));
        }
    }
    // ---- a direct statement that does not enter the program still works
    let (_, d) = &out[out.len() - 1];
    let printed: String = d.iter().filter_map(|e| if let Ev::Out(t) = e { Some(t.clone()) } else { None }).collect();
    if printed != "D" || d.iter().any(|e| matches!(e, Ev::Err(_))) {
        ctx.violation("direct-statement/blocked-by-program-errors", format!("{} : PRINT \"D\"; gave {:?}", desc, crate::driver::render(d)));
    }
}

/// The diagnostics of a faulty program do not depend on what was typed before
/// it: a direct line that failed to compile, or to link, leaves nothing behind.
fn judge_after_failed_direct(f: &Fault, n: u32, ctx: &mut Ctx) {
    let mut lines: Vec<(u32, String)> = vec![(10, "PRINT \"m10\";".into()), (30, "PRINT \"m30\";:RETURN".into()), (n, f.stmt.clone())];
    lines.sort_by_key(|l| l.0);
    lines.dedup_by_key(|l| l.0);
    let typed: Vec<String> = lines.iter().map(|(k, t)| format!("{} {}", k, t)).collect();
    // (a direct line that fails; or an earlier, differently faulty version of line 20 that was compiled by a RUN)
    for pre in ["PRINT )", "GOTO 64000", "WEND", "20 GOTO|RUN", "20 PRINT )|RUN", "20 WEND|LIST", "20 A=(|GOTO 10"] {
        let desc = format!("{} // {} // RUN // LIST // GOTO 10  vs the same without the failing direct line", pre, typed.join(" / "));
        if !ctx.begin(&desc) {
            continue;
        }
        let r = guard(|| {
            let run = |pre: Option<&str>| {
                let mut s = Session::new();
                let numbered = pre.map(|p| p.starts_with("20 ")).unwrap_or(false);
                if numbered {
                    // the other lines first, then the earlier version of line 20 and a command that compiles,
                    // then nothing but the new version of line 20
                    for l in typed.iter().filter(|l| !l.starts_with("20 ")) {
                        s.enter(l);
                    }
                }
                if let Some(p) = pre {
                    for part in p.split('|') {
                        s.enter(part);
                    }
                    s.take();
                }
                for l in typed.iter().filter(|l| !numbered || l.starts_with("20 ")) {
                    s.enter(l);
                }
                s.take();
                let mut t = String::new();
                for cmd in ["RUN", "LIST", "GOTO 10", "RUN 10"] {
                    s.enter(cmd);
                    t.push_str(&format!("{:?}|", s.take()));
                }
                t
            };
            (run(None), run(Some(pre)))
        });
        match r {
            Err(p) => ctx.violation("after-failed-direct-line/panic", p),
            Ok((a, b)) => {
                ctx.nontrivial(hash64(&(pre, &a)));
                if a != b {
                    ctx.violation("after-failed-direct-line/diagnostics-differ", format!("{} : without {:?}, with {:?}", desc, a, b));
                }
            }
        }
    }
}

/// direct-mode loops that never enter the (broken) program must run
fn judge_direct_loops(ctx: &mut Ctx) {
    let prog = ["10 PRINT \"m10\";", "20 GOTO 7777"];
    for d in [
        "WHILE I<3:I=I+1:PRINT I;:WEND",
        "FOR I=1 TO 3:PRINT I;:NEXT",
        "I=I+1:WHILE I<3:I=I+1:PRINT I;:WEND",
        "IF 1 THEN PRINT \"t\"; ELSE PRINT \"f\";",
        "ON 2 GOSUB 10,10:PRINT \"after\"",
    ] {
        if !ctx.begin(&format!("{} // {}", prog.join(" / "), d)) {
            continue;
        }
        let r = guard(|| {
            let mut with = Session::new();
            for l in prog {
                with.enter(l);
            }
            with.take();
            with.enter(d);
            let a = crate::driver::render(&with.take());
            let mut without = Session::new();
            without.enter("10 PRINT \"m10\";");
            without.take();
            without.enter(d);
            let b = crate::driver::render(&without.take());
            (a, b)
        });
        if let Ok((a, b)) = r {
            ctx.nontrivial(hash64(&b));
            let enters = d.contains("GOSUB");
            if !enters && a != b {
                ctx.violation("direct-statement/blocked-by-program-errors", format!("{} : with a broken program {:?}, with a clean one {:?}", d, a, b));
            }
            if enters && a.contains("m10") {
                ctx.violation("GOSUB/program-with-errors-executes", format!("{} printed {:?}", d, a));
            }
        }
    }
}

/// the same faults as a direct line over a clean program
fn judge_direct(f: &Fault, prefix: &str, ctx: &mut Ctx) {
    let line = format!("{}{}", prefix, f.stmt);
    if !ctx.begin(&format!("10 PRINT \"m10\"; / 30 PRINT \"m30\";:RETURN // {}", line)) {
        return;
    }
    let r = guard(|| {
        let mut s = Session::new();
        s.enter("10 PRINT \"m10\";");
        s.enter("30 PRINT \"m30\";:RETURN");
        s.take();
        s.replies = ["1,x", "1,x", "1", "1"].iter().map(|r| r.to_string()).collect();
        if s.enter(&line) != crate::driver::Status::Stopped {
            s.rt.interrupt();
            s.drain();
        }
        s.replies.clear();
        let a = s.take();
        s.enter("PRINT \"D\";");
        let b = s.take();
        (a, b, basic::lang::Line::new(&line).to_string())
    });
    match r {
        Err(p) => ctx.violation(&format!("{}/panic", f.site), p),
        Ok((a, b, listed)) => {
            let errs: Vec<&crate::driver::ErrInfo> = a.iter().flat_map(|e| if let Ev::Err(v) = e { v.iter().collect() } else { vec![] }).collect();
            if f.cover.is_some() && errs.is_empty() {
                ctx.violation(&format!("{}/no-diagnostic", f.site), format!("direct {} reported nothing", line));
            }
            let len = listed.chars().count();
            for e in &errs {
                if e.line.is_some() {
                    if f.cover.is_none() {
                        // a damaged line that is still legal ran into the program: a run-time error there
                        continue;
                    }
                    ctx.violation(&format!("{}/diagnostic-names-wrong-line", f.site), format!("direct {} : {}", line, e.raw));
                }
                let (x, y) = e.range;
                if !(x <= y && y <= len) {
                    ctx.violation(&format!("{}/range-outside-listed-line", f.site), format!("direct {} : range {}..{} of {:?}", line, x, y, listed));
                } else if let Some(cover) = &f.cover {
                    if (x, y) != (0, 0) && char_slice(&listed, x, y).as_deref() != Some(cover.as_str()) {
                        ctx.violation(&format!("{}/range-does-not-cover-the-culprit", f.site), format!("direct {} : range {}..{} covers {:?}, expected {:?}", line, x, y, char_slice(&listed, x, y), cover));
                    }
                }
            }
            // the direct line must not have executed its prefix when it has compile errors
            let printed: String = a.iter().filter_map(|e| if let Ev::Out(t) = e { Some(t.clone()) } else { None }).collect();
            if !errs.is_empty() && !printed.is_empty() && f.cover.is_some() {
                ctx.violation(&format!("{}/direct-line-with-errors-executes", f.site), format!("direct {} printed {:?}", line, printed));
            }
            let d: String = b.iter().filter_map(|e| if let Ev::Out(t) = e { Some(t.clone()) } else { None }).collect();
            if d != "D" {
                ctx.violation("direct-statement/blocked-by-program-errors", format!("after direct {} : PRINT \"D\"; gave {:?}", line, crate::driver::render(&b)));
            }
            ctx.nontrivial(hash64(&(f.site, prefix, "direct", &f.stmt)));
        }
    }
}

struct Faults {
    damaged: bool,
}

impl Faults {
    fn all(&self) -> Vec<Fault> {
        if self.damaged {
            damaged()
        } else {
            let mut v = vec![];
            for t in [7u32, 77, 777, 7777, 60000, 0] {
                v.extend(dangling(t));
            }
            v.extend(unmatched());
            v
        }
    }
}

impl Sweep for Faults {
    fn name(&self) -> String {
        if self.damaged { "token-damaged-template-lines".into() } else { "dangling-references-and-unmatched-loops".into() }
    }
    fn shards(&self) -> usize {
        self.all().len()
    }
    fn run_shard(&self, shard: usize, ctx: &mut Ctx) {
        let f = &self.all()[shard];
        for prefix in PREFIXES {
            for n in LINE_NUMBERS {
                if f.cover.as_deref() == Some(&n.to_string()) {
                    continue;
                }
                judge_program(f, prefix, n, ctx);
            }
            judge_direct(f, prefix, ctx);
        }
        judge_after_failed_direct(f, 20, ctx);
        if shard == 0 {
            judge_direct_loops(ctx);
        }
        if shard % 25 == 0 {
            ctx.sample();
        }
    }
}

/// Programs with several faults on different lines: every diagnostic is listed
/// and every one of them is underlined by LIST at its own line, in whatever
/// order the compiler collected them.
struct SeveralFaults;

impl Sweep for SeveralFaults {
    fn name(&self) -> String {
        "several-faults-on-different-lines".into()
    }
    fn shards(&self) -> usize {
        1
    }
    fn run_shard(&self, _shard: usize, ctx: &mut Ctx) {
        let faults = ["WHILE A", "WEND", "GOTO 7000", "GOSUB 7100", "IF A THEN 7200 ELSE 7300", "ON A GOTO 10,7400", "RESTORE 7500", "PRINT )", "A=("];
        // every ordered pair and triple of faults on lines 20, 40, 60 (clean lines in between)
        let mut progs: Vec<Vec<String>> = vec![];
        for a in faults {
            for b in faults {
                progs.push(vec!["10 PRINT \"m\";".into(), format!("20 {}", a), "30 PRINT \"m\";".into(), format!("40 {}", b)]);
                for c in ["WHILE B", "WEND", "GOTO 7600"] {
                    progs.push(vec![format!("20 {}", a), format!("40 {}", b), "50 REM".into(), format!("60 {}", c)]);
                }
            }
        }
        progs.push((0..8).map(|i| format!("{} GOTO {}", 10 + i * 10, 7000 + i * 100)).collect());
        progs.push((0..6).map(|i| format!("{} WHILE A{}", 10 + i * 10, i)).collect());
        for p in progs {
            if !ctx.begin(&format!("{} // RUN // LIST", p.join(" / "))) {
                continue;
            }
            let r = guard(|| {
                let mut s = Session::new();
                for l in &p {
                    s.enter(l);
                }
                s.take();
                s.enter("RUN");
                let run = s.take();
                s.enter("LIST");
                let list = s.take();
                // every line deleted again: nothing is left of the program or of its diagnostics
                for l in &p {
                    s.enter(l.split(' ').next().unwrap_or(""));
                }
                s.take();
                s.enter("RUN");
                let emptied_run = s.take();
                s.enter("GOTO 20");
                let emptied_goto = s.take();
                (run, list, emptied_run, emptied_goto)
            });
            match r {
                Err(pn) => ctx.violation("several-faults/panic", pn),
                Ok((run, list, emptied_run, emptied_goto)) => {
                    if emptied_run.iter().any(|e| matches!(e, Ev::Err(_) | Ev::Out(_))) {
                        ctx.violation("emptied-program/RUN-still-reports-or-runs", format!("{} : after deleting every line RUN gave {:?}", p.join(" / "), crate::driver::render(&emptied_run)));
                    }
                    let named: Vec<&crate::driver::ErrInfo> = emptied_goto.iter().flat_map(|e| if let Ev::Err(v) = e { v.iter().collect() } else { vec![] }).collect();
                    if named.is_empty() || named.iter().any(|e| e.line.is_some()) {
                        ctx.violation("emptied-program/GOTO-does-not-report-a-missing-line-of-the-direct-statement", format!("{} : after deleting every line GOTO 20 gave {:?}", p.join(" / "), crate::driver::render(&emptied_goto)));
                    }
                    let errs: Vec<&crate::driver::ErrInfo> = run.iter().flat_map(|e| if let Ev::Err(v) = e { v.iter().collect() } else { vec![] }).collect();
                    ctx.nontrivial(hash64(&(p.len(), errs.len(), &p[0], &p[1])));
                    let printed: String = run.iter().filter_map(|e| if let Ev::Out(t) = e { Some(t.clone()) } else { None }).collect();
                    // (WHILE and WEND lines may pair up with each other: which of them are faults is not decided here)
                    let loops = p.iter().any(|l| l.contains("WHILE") || l.contains("WEND"));
                    if printed.contains('m') && !errs.is_empty() {
                        ctx.violation("RUN/program-with-errors-executes", format!("{} : printed {:?}", p.join(" / "), printed));
                    }
                    // every faulty line is reported
                    // (link faults are only looked for once every line parses: a syntax fault hides them)
                    let syntax = p.iter().any(|l| l.ends_with("PRINT )") || l.ends_with("A=("));
                    for l in p.iter().filter(|_| !loops && !syntax) {
                        let n: u32 = l.split(' ').next().unwrap().parse().unwrap();
                        let faulty = !(l.ends_with("PRINT \"m\";") || l.ends_with("REM"));
                        if faulty && !errs.iter().any(|e| e.line == Some(n)) {
                            ctx.violation("several-faults/faulty-line-not-reported", format!("{} : nothing reported for line {}", p.join(" / "), n));
                        }
                    }
                    // every diagnostic is underlined where LIST shows its line
                    for e in &errs {
                        let n = match e.line {
                            Some(n) => n,
                            None => continue,
                        };
                        let cols = list.iter().find_map(|ev| match ev {
                            Ev::List(t, cols) if t.starts_with(&format!("{} ", n)) => Some(cols.clone()),
                            _ => None,
                        });
                        match cols {
                            None => ctx.violation("several-faults/faulty-line-not-listed", format!("{} : line {}", p.join(" / "), n)),
                            Some(c) => {
                                if !c.contains(&e.range) {
                                    ctx.violation("several-faults/LIST-underline-missing", format!("{} : {} has range {:?}, LIST underlines {:?}", p.join(" / "), e.raw, e.range, c));
                                }
                            }
                        }
                    }
                }
            }
        }
        ctx.sample();
    }
}

/// A clean program stops with something to resume (STOP / END inside a loop
/// inside a subroutine, an interrupt); an edit then makes it faulty; no way of
/// resuming or entering it may run any of its lines.
struct BrokenWhileStopped;

/// (the last one breaks the program by itself: DELETE executed by the program ends the run)
const STOPPERS: [&str; 4] = ["STOP", "END", "A$=INKEY$:IF A$=\"\" THEN 50", "DELETE 40"];
const BREAKING_EDITS: [&str; 8] = ["DELETE 40", "40", "DELETE 30-40", "20 GOTO 77", "60 GOTO 77", "35 WEND", "DELETE 40-", "LOAD \"bad\""];
/// the file LOADed by the last edit: a program with a dangling reference
/// (long enough for any stale resume address of the stopped program to fall inside it)
const BAD_FILE: &str = "10 PRINT \"m10\";\n20 PRINT \"m20\";:GOTO 77\n30 PRINT \"m30\";\n40 PRINT \"m40\";\n50 PRINT \"m50\";\n55 PRINT \"m55\";\n60 PRINT \"m60\";:PRINT \"m61\";:PRINT \"m62\";:PRINT \"m63\";\n70 PRINT \"m70\";:PRINT \"m71\";:PRINT \"m72\";:PRINT \"m73\";\n80 PRINT \"m80\";:PRINT \"m81\";:PRINT \"m82\";:PRINT \"m83\";\n90 PRINT \"m90\";:PRINT \"m91\";:PRINT \"m92\";:PRINT \"m93\";\n";
const RESUMES: [&str; 9] = ["CONT", "RETURN", "NEXT", "GOTO 10", "GOSUB 30", "RUN", "RUN 20", "ON 1 GOTO 30", "IF 1 THEN 30"];

impl Sweep for BrokenWhileStopped {
    fn name(&self) -> String {
        "program-broken-while-stopped".into()
    }
    fn shards(&self) -> usize {
        STOPPERS.len()
    }
    fn run_shard(&self, shard: usize, ctx: &mut Ctx) {
        let stopper = STOPPERS[shard];
        let prog = [
            "10 PRINT \"m10\";:GOSUB 50".to_string(),
            "20 PRINT \"m20\";:GOTO 40".to_string(),
            "30 PRINT \"m30\";".to_string(),
            "40 PRINT \"m40\";:END".to_string(),
            // what follows the stopping point prints a marker before anything can fail
            format!("50 FOR I=1 TO 2:PRINT \"m50\";:{}", if stopper.contains("INKEY") { "GOTO 55".to_string() } else { format!("{}:PRINT \"m51\";:NEXT:RETURN", stopper) }),
            if stopper.contains("INKEY") { "55 A$=INKEY$:PRINT \"m55\";:GOTO 55".to_string() } else { "55 REM".to_string() },
        ];
        for edit in BREAKING_EDITS {
            for first in RESUMES {
                for second in ["", "CONT", "RETURN"] {
                    let desc = format!("{} // RUN (stops: {}) // {} // {} // {}", prog.join(" / "), stopper.split(':').next().unwrap_or(""), edit, first, second);
                    if !ctx.begin(&desc) {
                        continue;
                    }
                    let r = guard(|| {
                        let mut s = Session::with(5000, 40);
                        s.files.push(("bad".into(), BAD_FILE.into()));
                        for l in &prog {
                            s.enter(l);
                        }
                        s.take();
                        if s.enter("RUN") != crate::driver::Status::Stopped {
                            s.rt.interrupt();
                            s.drain();
                        }
                        let ran = crate::driver::render(&s.take());
                        s.enter(edit);
                        s.take();
                        let mut outs = vec![];
                        for cmd in [first, second] {
                            if cmd.is_empty() {
                                continue;
                            }
                            if s.enter(cmd) != crate::driver::Status::Stopped {
                                s.rt.interrupt();
                                s.drain();
                            }
                            outs.push((cmd, s.take()));
                        }
                        s.enter("PRINT \"D\";");
                        (ran, outs, s.take())
                    });
                    match r {
                        Err(p) => ctx.violation("broken-while-stopped/panic", p),
                        Ok((ran, outs, d)) => {
                            ctx.nontrivial(hash64(&(shard, edit, first, second)));
                            if !ran.contains("m50") {
                                ctx.violation("broken-while-stopped/harness", format!("{} : the clean program did not reach its stop: {:?}", desc, ran));
                                continue;
                            }
                            for (cmd, ev) in &outs {
                                let printed: String = ev.iter().filter_map(|e| if let Ev::Out(t) = e { Some(t.clone()) } else { None }).collect();
                                if printed.contains('m') {
                                    ctx.violation(
                                        &format!("{}/program-with-errors-executes", cmd.split(' ').next().unwrap_or("")),
                                        format!("{} : {} printed {:?}", desc, cmd, printed),
                                    );
                                }
                                if !ev.iter().any(|e| matches!(e, Ev::Err(_))) {
                                    ctx.violation(
                                        &format!("{}/errors-not-reported-on-entry", cmd.split(' ').next().unwrap_or("")),
                                        format!("{} : {} reported nothing: {:?}", desc, cmd, crate::driver::render(ev)),
                                    );
                                }
                            }
                            let printed: String = d.iter().filter_map(|e| if let Ev::Out(t) = e { Some(t.clone()) } else { None }).collect();
                            if printed != "D" {
                                ctx.violation("direct-statement/blocked-by-program-errors", format!("{} : PRINT \"D\"; gave {:?}", desc, crate::driver::render(&d)));
                            }
                        }
                    }
                }
            }
        }
        ctx.sample();
    }
}

impl Check for C19 {
    fn id(&self) -> &'static str {
        "C19"
    }
    fn sweeps(&self, _tier: Tier) -> Vec<Box<dyn Sweep>> {
        vec![Box::new(Faults { damaged: false }), Box::new(Faults { damaged: true }), Box::new(BrokenWhileStopped), Box::new(SeveralFaults)]
    }
    fn meta(&self, _tier: Tier) -> Meta {
        Meta {
            bound: "20 referencing forms (GOTO, GOSUB, THEN n, ELSE n, IF..GOTO, THEN GOSUB, nested THEN, every position of ON..GOTO / ON..GOSUB lists, RESTORE n, RUN n, references after FOR / WHILE / DEF / other statements) x 6 missing targets (1 to 5 digits, and 0), 9 unmatched WHILE / WEND placements, and every single-token deletion / replacement (7 replacement tokens) of 11 template lines; x 5 prefixes (none, multi-byte strings, blanks, other statements) x 6 line numbers of 1..5 digits incl. 65529, and as a direct line; 8 ways of entering / not entering the program after each; direct-mode loops over a broken program; every fault again after a direct line that failed to compile / link / match (diagnostics must be identical); a clean program stopped in 4 ways (STOP / END inside a loop inside a subroutine, interrupt while a key is awaited, a DELETE of a jump target executed by the program itself) x 7 edits that break it (DELETE forms, bare number, retyped and added faulty lines, unmatched WEND) x 9 ways of resuming or entering x 3 follow-ups".into(),
            rule: "a case is one faulty program (or direct line); checked per diagnostic: line, code, range inside the listed text, range covers exactly the missing number / the keyword, message column = range start + 1, LIST underline = range; RUN, RUN n, GOTO, GOSUB, ON..GOTO, IF..THEN n print no marker and report; PRINT \"D\" works; distinct_nontrivial = distinct (site, prefix, digits of the line number, statement)".into(),
            states_note: "transitions = sessions judged".into(),
            assumptions: vec![
                "ranges are character (not byte) ranges into the text LIST shows (Event::List)".into(),
                "for token-damaged lines only 'names the line, range inside the listed text, message column agrees' is checked; a damaged line that is still legal BASIC is counted, not judged".into(),
            ],
        }
    }
}
