//! C17 — INPUT parses replies as documented and retries atomically per reply.
//! Every INPUT statement form (no prompt / prompt / leading comma; 1..3
//! variables of every type; an array target subscripted by an earlier field)
//! with every reply string up to a bounded length over the alphabet
//! {1 9 - + . E & H " , blank x}, inside a FOR loop (so that anything left on
//! the stack shows at NEXT), against the reference reply parser.

use super::c01::{render_impl, render_ref};
use super::{Check, Meta};
use crate::driver::Session;
use crate::engine::{guard, hash64, Ctx, Sweep, Tier};
use crate::gen::*;
use crate::refmodel::interp::{End, Machine};
use std::collections::VecDeque;

pub struct C17;

const ALPHA: [&str; 14] = ["1", "9", "-", "+", ".", "E", "D", "&", "H", "\"", ",", " ", "x", "é"];

fn v(n: &str) -> LVal {
    LVal::Var(n.into())
}

/// (variables, a reply that is certainly acceptable)
fn var_lists() -> Vec<(Vec<LVal>, &'static str)> {
    vec![
        (vec![v("A")], "5"),
        (vec![v("A%")], "5"),
        (vec![v("A#")], "5"),
        (vec![v("A$")], "ok"),
        (vec![v("A"), v("B$")], "5,ok"),
        (vec![v("A$"), v("B")], "ok,5"),
        (vec![v("A%"), v("A$"), v("A#")], "5,ok,6"),
        (vec![v("I"), LVal::Arr("D".into(), vec![var("I")])], "2,7"),
    ]
}

fn forms() -> Vec<(Stmt, &'static str)> {
    let mut out = vec![];
    for (vars, good) in var_lists() {
        out.push((Stmt::Input(None, vars.clone()), good));
        out.push((Stmt::Input(Some("p".into()), vars.clone()), good));
        out.push((Stmt::InputNoCaps(None, vars.clone()), good));
    }
    out.push((Stmt::InputNoCaps(Some("why".into()), vec![v("A$")]), "ok"));
    out
}

fn program(input: &Stmt) -> Prog {
    let show = Stmt::Print(vec![
        PItem::E(strlit("<")),
        PItem::Semi,
        PItem::E(var("A")),
        PItem::Semi,
        PItem::E(var("A%")),
        PItem::Semi,
        PItem::E(var("A#")),
        PItem::Semi,
        PItem::E(var("A$")),
        PItem::Semi,
        PItem::E(strlit("|")),
        PItem::Semi,
        PItem::E(var("B$")),
        PItem::Semi,
        PItem::E(var("B")),
        PItem::Semi,
        PItem::E(var("I")),
        PItem::Semi,
        PItem::E(Expr::Arr("D".into(), vec![int(2)])),
        PItem::Semi,
        PItem::E(Expr::Arr("D".into(), vec![int(1)])),
        PItem::Semi,
        PItem::E(strlit(">")),
    ]);
    Prog {
        lines: vec![
            Line { num: 10, stmts: vec![Stmt::For("K".into(), int(1), int(2), None)] },
            Line { num: 20, stmts: vec![input.clone()] },
            Line { num: 30, stmts: vec![show, Stmt::Next(vec![]), Stmt::Print(vec![PItem::E(strlit("done"))])] },
        ],
    }
}

/// the same loop with the INPUT inside a subroutine (the redo must find its way back with a GOSUB frame below it)
fn program_in_subroutine(input: &Stmt) -> Prog {
    let p = program(input);
    let show = p.lines[2].stmts[0].clone();
    Prog {
        lines: vec![
            Line { num: 10, stmts: vec![Stmt::For("K".into(), int(1), int(2), None), Stmt::Gosub(100), Stmt::Next(vec![]), Stmt::Print(vec![PItem::E(strlit("done"))]), Stmt::End] },
            Line { num: 100, stmts: vec![input.clone()] },
            Line { num: 110, stmts: vec![show, Stmt::Return] },
        ],
    }
}

fn judge(input: &Stmt, replies: &[String], ctx: &mut Ctx) {
    judge_prog(&program(input), replies, ctx)
}

fn judge_sub(input: &Stmt, replies: &[String], ctx: &mut Ctx) {
    judge_prog(&program_in_subroutine(input), replies, ctx)
}

fn judge_prog(p: &Prog, replies: &[String], ctx: &mut Ctx) {
    let p = p.clone();
    let desc = format!("{} ; replies {:?}", p.render().join(" / "), replies.iter().map(|r| if r.len() > 60 { format!("{}... ({} bytes)", r.chars().take(20).collect::<String>(), r.len()) } else { r.clone() }).collect::<Vec<_>>());
    if !ctx.begin(&desc) {
        return;
    }
    let mut m = Machine::new(&p);
    let mut rq: VecDeque<String> = replies.iter().cloned().collect();
    let end = m.run(None, &mut rq, 400);
    match end {
        End::Stopped => {}
        End::Undefined(why) => {
            ctx.skip(&why);
            return;
        }
        _ => {
            ctx.skip("reference wants more replies");
            return;
        }
    }
    let exp = render_ref(&m.ev);
    let r = guard(|| {
        let mut s = Session::new();
        for l in p.render() {
            s.enter(&l);
        }
        s.take();
        s.replies = replies.iter().cloned().collect();
        s.enter("RUN");
        render_impl(&s.take()).0
    });
    ctx.nontrivial(hash64(&exp));
    match r {
        Err(pn) => ctx.violation("INPUT/panic", pn),
        Ok(got) => {
            if got != exp {
                // classify by the first difference
                let redo_exp = exp.matches("REDO").count();
                let redo_got = got.matches("REDO").count();
                let class = if redo_got < redo_exp {
                    "bad-reply-accepted"
                } else if redo_got > redo_exp {
                    "good-reply-rejected"
                } else if exp.contains(":false") != got.contains(":false") {
                    "capitalisation-flag"
                } else {
                    "wrong-values-or-prompt"
                };
                ctx.violation(&format!("INPUT/{}", class), format!("{} : expected {:?}, got {:?}", desc, exp, got));
            }
        }
    }
}

struct Replies {
    n: usize,
}

impl Sweep for Replies {
    fn name(&self) -> String {
        format!("all-replies-len-{}", self.n)
    }
    fn shards(&self) -> usize {
        forms().len() * ALPHA.len()
    }
    fn run_shard(&self, shard: usize, ctx: &mut Ctx) {
        let fs = forms();
        let (input, good) = &fs[shard / ALPHA.len()];
        let c0 = ALPHA[shard % ALPHA.len()];
        let good = good.to_string();
        if shard % ALPHA.len() == 0 {
            // the empty reply, the good reply alone, and over-long replies
            judge(input, &[String::new(), good.clone(), good.clone()], ctx);
            judge(input, &[good.clone(), good.clone()], ctx);
            // (the limit is 1024 bytes, not characters)
            for long in ["x".repeat(1025), "1".repeat(1025), format!("{},{}", "x".repeat(600), "1".repeat(600)), "9".repeat(300), "é".repeat(600), "日".repeat(400), format!("{}5", "\u{3000}".repeat(400)), format!("\"{}\",\"{}\",\"{}\"", "é".repeat(200), "é".repeat(200), "é".repeat(200))] {
                judge(input, &[long.clone(), good.clone(), good.clone()], ctx);
                judge_sub(input, &[long, good.clone(), good.clone()], ctx);
            }
            // fields within 255 characters but beyond 255 bytes; numbers between the last Integer and the next whole number
            for r in ["é".repeat(150), "ü".repeat(255), "日".repeat(200), format!("\"{}\",5", "é".repeat(200)), format!("5,\"{}\"", "é".repeat(200)), "é".repeat(256)] {
                judge(input, &[r, good.clone(), good.clone()], ctx);
            }
            for r in ["32767.5", "3.27679E4", "32767.99", "-32768.5", "-32768.9", "-32767.5", "32766.5", "32767.5,ok", "ok,32767.5", "32767.5,a,32767.5", "1,32767.9"] {
                judge(input, &[r.to_string(), good.clone(), good.clone()], ctx);
            }
            judge_sub(input, &[String::new(), good.clone(), good.clone()], ctx);
            judge_sub(input, &[good.clone(), good.clone()], ctx);
            for r in ["x,2", "70000,\"a,b\",5", "1,x", "x", "1,2,3", "40000", "5,ok", "\"a,b\",5", ",", "5,,6", "&HD", "1E39,1"] {
                judge_sub(input, &[r.to_string(), good.clone(), good.clone()], ctx);
                judge_sub(input, &[r.to_string(), r.to_string(), good.clone(), good.clone()], ctx);
            }
            for r in ["\"a,b\",5", "\"a,b\"", " 5 , ok ", "5,\"ok\"", "\"ok\",5", "5,ok,6,7", "5,,6", ",,", "1E2,ok", "1D2", "&H1F", "&17", "&h1f", "&HD", "&H1D", "&hdd", "&H7FFF", "&HABCD", "&H8000", "&77777", "&100000", "1e2", "-5", "+5", "5!", "5#", "5%", "NAN", "inf", "&-1", "&H-F", "1 2", "\"", "\"\"", "5,\"a", "40000", "-40000", "1E39", "1D309", " ", "x\"y"] {
                judge(input, &[r.to_string(), good.clone(), good.clone()], ctx);
            }
        }
        for len in 1..=self.n {
            let total = ALPHA.len().pow(len as u32 - 1);
            for idx in 0..total {
                let mut s = String::from(c0);
                let mut x = idx;
                for _ in 1..len {
                    s.push_str(ALPHA[x % ALPHA.len()]);
                    x /= ALPHA.len();
                }
                // the enumerated reply, then good replies for the retry and the second pass
                if len <= 2 {
                    judge_sub(input, &[s.clone(), good.clone(), good.clone()], ctx);
                }
                judge(input, &[s, good.clone(), good.clone()], ctx);
                if ctx.done() {
                    return;
                }
            }
        }
        if shard % 40 == 0 {
            ctx.sample();
        }
    }
}

/// INPUT targets whose subscript *expression* can fail for a value taken from an
/// earlier field of the same reply. Whether that failure is a refused reply or
/// a run-time error the manual does not say, so nothing is compared with the
/// reference here; whichever it is: never INTERNAL ERROR, a REDO FROM START is
/// followed at once by the same prompt again, and with good replies at hand
/// the program either completes or ends in an error of line 20.
struct FailingSubscript;

fn failing_subscript_forms() -> Vec<(&'static str, Vec<&'static str>, &'static str)> {
    vec![
        ("INPUT I,D(E(I))", vec!["12,5", "-1,5", "11,5", "40000,5", "12,x", "12", "12,5,6"], "2,7"),
        ("INPUT \"p\";I,D(10\\I)", vec!["0,5", "0,x", "0"], "2,7"),
        ("INPUT A$,D(ASC(A$)-64)", vec![",5", "\"\",5", "z,5"], "A,7"),
        ("INPUT I,A$,D(E(I))", vec!["12,a,5", "12,a,x", "12,\"a,b\",5"], "2,ok,7"),
        ("INPUT I,D(E(I)),J", vec!["12,5,6", "12,5,x"], "2,7,8"),
        ("INPUT I,D(1,E(I))", vec!["12,5", "2,5"], "2,7"),
    ]
}

impl Sweep for FailingSubscript {
    fn name(&self) -> String {
        "failing-subscript-expression".into()
    }
    fn shards(&self) -> usize {
        failing_subscript_forms().len()
    }
    fn run_shard(&self, shard: usize, ctx: &mut Ctx) {
        use crate::driver::Ev;
        let (stmt, bads, good) = failing_subscript_forms()[shard].clone();
        for wrap in 0..3 {
            let lines: Vec<String> = match wrap {
                0 => vec![format!("20 {}", stmt), "30 PRINT \"done\"".into()],
                1 => vec!["10 FOR K=1 TO 2".into(), format!("20 {}", stmt), "30 NEXT:PRINT \"done\"".into()],
                _ => vec!["10 FOR K=1 TO 2:GOSUB 20:NEXT:PRINT \"done\":END".into(), format!("20 {}", stmt), "30 RETURN".into()],
            };
            for bad in &bads {
                for twice in [false, true] {
                    let mut replies: Vec<String> = vec![bad.to_string()];
                    if twice {
                        replies.push(bad.to_string());
                    }
                    replies.extend([good.to_string(), good.to_string(), good.to_string()]);
                    let desc = format!("{} ; replies {:?}", lines.join(" / "), replies);
                    if !ctx.begin(&desc) {
                        continue;
                    }
                    let r = guard(|| {
                        let mut s = Session::new();
                        for l in &lines {
                            s.enter(l);
                        }
                        s.take();
                        s.replies = replies.iter().cloned().collect();
                        s.enter("RUN");
                        s.take()
                    });
                    match r {
                        Err(pn) => ctx.violation("INPUT/panic", pn),
                        Ok(ev) => {
                            let text = crate::driver::render_codes(&ev);
                            ctx.nontrivial(hash64(&text));
                            let mut last_prompt: Option<&Ev> = None;
                            let mut ended_in_error = false;
                            for (i, e) in ev.iter().enumerate() {
                                match e {
                                    Ev::Prompt(..) => last_prompt = Some(e),
                                    Ev::Err(v) => {
                                        if v.iter().any(|x| x.code.contains("INTERNAL")) {
                                            ctx.violation("INPUT/internal-error", format!("{} : {:?}", desc, text));
                                        }
                                        if v.iter().any(|x| x.code == "REDO FROM START") {
                                            let next = ev[i + 1..].iter().find(|n| !matches!(n, Ev::Out(t) if t.trim().is_empty()));
                                            if last_prompt.is_none() || next != last_prompt {
                                                ctx.violation("INPUT/redo-without-asking-again", format!("{} : {:?}", desc, text));
                                            }
                                        } else if v.iter().any(|x| x.line != Some(20)) {
                                            ctx.violation("INPUT/error-outside-the-statement", format!("{} : {:?}", desc, text));
                                        } else {
                                            ended_in_error = true;
                                        }
                                    }
                                    _ => {}
                                }
                            }
                            if !ended_in_error && !text.contains("done") {
                                ctx.violation("INPUT/program-does-not-complete", format!("{} : {:?}", desc, text));
                            }
                        }
                    }
                }
            }
        }
        ctx.sample();
    }
}

impl Check for C17 {
    fn id(&self) -> &'static str {
        "C17"
    }
    fn sweeps(&self, tier: Tier) -> Vec<Box<dyn Sweep>> {
        vec![Box::new(Replies { n: tier.pick(4, 5) }), Box::new(FailingSubscript)]
    }
    fn meta(&self, tier: Tier) -> Meta {
        Meta {
            bound: format!(
                "25 INPUT statements (no prompt / prompt / leading comma x variable lists A | A% | A# | A$ | A,B$ | A$,B | A%,A$,A# | I,D(I), plus a leading-comma-with-prompt form) x every reply of length <={} over {{1 9 - + . E D & H \" , blank x é}}, plus 41 hand-picked replies (quoted commas, blanks, suffixes, radix forms, NAN/inf, out-of-range numbers) and over-long replies (300, 1025, 1201 bytes); each inside FOR K=1 TO 2 .. NEXT with the values of all targets printed after the statement; a rejected reply is followed by a known-good one; 6 INPUT statements whose array target's subscript expression fails for an earlier field of the reply (nested array, division, ASC) x 20 such replies x given once or twice x 3 program shapes, judged without the reference: no INTERNAL ERROR, REDO FROM START is followed by the same prompt, the program completes or ends with an error of that line",
                tier.pick(4, 5)
            ),
            rule: "a case is (INPUT statement, reply script); compared: prompts with capitalisation flag, REDO FROM START events, printed values of all variables, loop completion; distinct_nontrivial = distinct expected transcripts".into(),
            states_note: "transitions = sessions compared with the reference reply parser (refmodel/input.rs)".into(),
            assumptions: vec![
                "numeric field grammar: [+-]d*[.d*][(E|D)[+-]d+] with at least one digit, optional type suffix, &o.. and &Hh.. within 0..32767, empty = 0; a field that does not convert to the target (overflow, too long) is a REDO".into(),
                "values whose printed notation the manual does not fix are skipped (counted)".into(),
            ],
        }
    }
}
