//! Helpers shared by the metamorphic checks.

use super::c01::render_impl;
use crate::driver::Session;
use crate::engine::guard;

pub const Q: usize = 16;
pub const CALLS: usize = 700;

/// Type `stored`, then enter each `direct` line; returns the transcript of the
/// direct lines in the reference vocabulary and whether the driver had to cut.
pub fn session_text(stored: &[String], direct: &[String], replies: &[String]) -> Result<(String, bool), String> {
    guard(|| {
        let mut s = Session::with(Q, CALLS);
        for l in stored {
            s.enter(l);
        }
        s.take();
        s.replies = replies.iter().cloned().collect();
        for d in direct {
            s.enter(d);
        }
        render_impl(&s.take())
    })
}

/// Compare two transcripts; when either was cut only the common prefix counts.
pub fn same_or_prefix(a: &(String, bool), b: &(String, bool)) -> bool {
    if !a.1 && !b.1 {
        return a.0 == b.0;
    }
    let ca: Vec<char> = a.0.chars().collect();
    let cb: Vec<char> = b.0.chars().collect();
    let n = ca.len().min(cb.len());
    // the last few characters before a cut may belong to an unfinished statement
    let n = n.saturating_sub(8);
    ca[..n] == cb[..n]
}

/// Replace every "IN <n>" of error events by "IN <map(n)>".
pub fn map_lines(text: &str, map: &dyn Fn(u32) -> u32) -> String {
    let mut out = String::new();
    let mut rest = text;
    while let Some(i) = rest.find("\u{1}?") {
        out.push_str(&rest[..i]);
        let tail = &rest[i..];
        let end = tail.find('\u{2}').map(|e| e + '\u{2}'.len_utf8()).unwrap_or(tail.len());
        let ev = &tail[..end];
        if let Some(j) = ev.rfind(" IN ") {
            let num: String = ev[j + 4..].chars().take_while(|c| c.is_ascii_digit()).collect();
            if let Ok(n) = num.parse::<u32>() {
                out.push_str(&ev[..j + 4]);
                out.push_str(&map(n).to_string());
                out.push_str(&ev[j + 4 + num.len()..]);
            } else {
                out.push_str(ev);
            }
        } else {
            out.push_str(ev);
        }
        rest = &tail[end..];
    }
    out.push_str(rest);
    out
}

/// Remove " IN <n>" from error events (direct mode reports no line).
pub fn strip_lines(text: &str) -> String {
    let mut out = String::new();
    let mut rest = text;
    while let Some(i) = rest.find("\u{1}?") {
        out.push_str(&rest[..i]);
        let tail = &rest[i..];
        let end = tail.find('\u{2}').map(|e| e + '\u{2}'.len_utf8()).unwrap_or(tail.len());
        let ev = &tail[..end];
        match ev.rfind(" IN ") {
            Some(j) => {
                out.push_str(&ev[..j]);
                out.push('\u{2}');
            }
            None => out.push_str(ev),
        }
        rest = &tail[end..];
    }
    out.push_str(rest);
    out
}
