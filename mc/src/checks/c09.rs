//! C09 — READ consumes DATA in source order; RESTORE and RUN reposition it.
//! Every program of up to N lines over an alphabet of DATA lines (incl. DATA
//! as a later statement and inside an IF clause) and code lines (READ into
//! every type, RESTORE, RESTORE n, loops), in every order, after every one of
//! a set of histories, against the reference interpreter.

use super::c01::{render_impl, render_ref};
use super::{Check, Meta};
use crate::driver::Session;
use crate::engine::{guard, hash64, Ctx, Sweep, Tier};
use crate::gen::*;
use crate::refmodel::interp::{End, Machine};
use crate::refmodel::value::{BinOp, V};
use std::collections::VecDeque;

pub struct C09;

fn lv(n: &str) -> LVal {
    LVal::Var(n.into())
}
fn show(n: &str) -> Stmt {
    Stmt::Print(vec![PItem::E(var(n)), PItem::Semi])
}
fn sng(x: f32, s: &str) -> Expr {
    Expr::Lit(V::Sng(x), s.into())
}

/// line bodies; `Rel` targets are resolved against the program's own lines
#[derive(Clone, Debug)]
enum Body {
    Plain(Vec<Stmt>),
    /// RESTORE <first|last|self|absent>
    Restore(u8),
    /// loop back to the first line while K<2
    LoopBack,
}

fn alphabet() -> Vec<Body> {
    let neg4 = Expr::Neg(Box::new(Expr::Lit(V::Int(4), "4".into())));
    vec![
        Body::Plain(vec![Stmt::Data(vec![int(1)])]),
        Body::Plain(vec![Stmt::Data(vec![neg4, sng(3.5, "3.5")])]),
        Body::Plain(vec![Stmt::Data(vec![strlit("two")])]),
        Body::Plain(vec![Stmt::Data(vec![sng(40000.0, "40000")])]),
        Body::Plain(vec![Stmt::Print(vec![PItem::E(strlit("x")), PItem::Semi]), Stmt::Data(vec![int(7)])]),
        Body::Plain(vec![Stmt::If(int(0), Branch::Stmts(vec![Stmt::Data(vec![int(8)])]), None)]),
        Body::Plain(vec![Stmt::Data(vec![int(5), strlit("s"), int(6)])]),
        Body::Plain(vec![Stmt::Read(vec![lv("A")]), show("A")]),
        Body::Plain(vec![Stmt::Read(vec![lv("A"), lv("B$")]), show("A"), show("B$")]),
        Body::Plain(vec![Stmt::Read(vec![lv("A%")]), show("A%")]),
        Body::Plain(vec![Stmt::Read(vec![lv("A$")]), show("A$")]),
        Body::Plain(vec![Stmt::Read(vec![lv("A#")]), show("A#")]),
        Body::Plain(vec![Stmt::Read(vec![LVal::Arr("D".into(), vec![int(1)])]), Stmt::Print(vec![PItem::E(Expr::Arr("D".into(), vec![int(1)])), PItem::Semi])]),
        Body::Plain(vec![Stmt::Restore(None)]),
        Body::Restore(0),
        Body::Restore(1),
        Body::Restore(2),
        Body::Restore(3),
        Body::LoopBack,
        Body::Plain(vec![Stmt::If(bin(BinOp::Eq, var("K"), int(0)), Branch::Stmts(vec![Stmt::Read(vec![lv("A")]), show("A")]), None)]),
    ]
}

fn build(bodies: &[&Body]) -> Prog {
    let n = bodies.len() as u16;
    let mut lines = vec![];
    for (i, b) in bodies.iter().enumerate() {
        let num = (i as u16 + 1) * 10;
        let stmts = match b {
            Body::Plain(s) => s.clone(),
            Body::Restore(t) => vec![Stmt::Restore(Some(match t {
                0 => 10,
                1 => n * 10,
                2 => num,
                _ => (n + 1) * 10,
            }))],
            Body::LoopBack => vec![
                Stmt::Let(lv("K"), bin(BinOp::Add, var("K"), int(1))),
                Stmt::If(bin(BinOp::Lt, var("K"), int(2)), Branch::Line(10), None),
            ],
        };
        lines.push(Line { num, stmts });
    }
    Prog { lines }
}

#[derive(Clone, Copy, Debug, PartialEq)]
enum Hist {
    Fresh,
    RunTwice,
    ClearFirst,
    DirectReadThenRun,
    RunThenDirectRead,
    EditDataThenRun,
    StoppedMidWayThenRun,
    /// RUN, then RUN 10 (the first line): RUN n is CLEAR + GOTO n
    RunThenRunFirstLine,
    /// two direct READs, then RUN 10
    DirectReadThenRunFirstLine,
    /// RUN, then a DATA statement typed as a direct line (refused), then RUN
    DirectDataThenRun,
    /// RENUM, then RUN: RESTORE n follows its line (error line numbers are not compared)
    RenumThenRun,
    /// the same with line numbers above 32767 (RESTORE n with a large n)
    RenumHighThenRun,
    /// direct READs until OUT OF DATA (and once more), DATA appended behind the old end, READ
    OverReadThenAppend,
    /// two direct READs, NEW, the program typed again, a direct READ
    ReadNewRetype,
}

const HISTS: [Hist; 14] = [
    Hist::RenumHighThenRun,
    Hist::OverReadThenAppend,
    Hist::ReadNewRetype,
    Hist::RenumThenRun,
    Hist::DirectDataThenRun,
    Hist::RunThenRunFirstLine,
    Hist::DirectReadThenRunFirstLine,
    Hist::Fresh,
    Hist::RunTwice,
    Hist::ClearFirst,
    Hist::DirectReadThenRun,
    Hist::RunThenDirectRead,
    Hist::EditDataThenRun,
    Hist::StoppedMidWayThenRun,
];

fn judge(p: &Prog, h: Hist, ctx: &mut Ctx) {
    let direct_read = vec![Stmt::Read(vec![lv("Q")]), show("Q")];
    // the edited program: a new first DATA line in front
    let mut edited = p.clone();
    edited.lines.insert(0, Line { num: 5, stmts: vec![Stmt::Data(vec![int(9)])] });
    let desc = format!("{} ; history {:?} (final step: {})", p.text(), h, match h {
        Hist::RunThenDirectRead => "READ Q:PRINT Q;",
        Hist::RunThenRunFirstLine | Hist::DirectReadThenRunFirstLine => "RUN 10",
        _ => "RUN",
    });
    if !ctx.begin(&desc) {
        return;
    }
    // ---- two histories judged without the reference interpreter
    if h == Hist::OverReadThenAppend || h == Hist::ReadNewRetype {
        let r = guard(|| {
            let mut s = Session::with(200, 30);
            for l in p.render() {
                s.enter(&l);
            }
            s.take();
            let is = |ev: &[crate::driver::Ev], code: &str| ev.iter().any(|e| matches!(e, crate::driver::Ev::Err(v) if v.iter().any(|x| x.code == code)));
            if h == Hist::OverReadThenAppend {
                // read past the end (twice), append constants behind the old end, read on
                let mut over = false;
                for _ in 0..14 {
                    s.enter("READ Q#");
                    let ev = s.take();
                    if is(&ev, "OUT OF DATA") {
                        over = true;
                        break;
                    }
                    if ev.iter().any(|e| matches!(e, crate::driver::Ev::Err(_))) {
                        break;
                    }
                }
                if !over {
                    return None;
                }
                s.enter("READ Q#");
                s.take();
                s.enter("64000 DATA 71,72");
                s.take();
                s.enter("READ Q#:PRINT Q#;");
                Some((render_impl(&s.take()).0, " 71 ".to_string()))
            } else {
                // consume two constants, NEW, type the program again: the first direct READ starts at the first constant
                s.enter("READ Q$:READ Q$");
                s.take();
                s.enter("NEW");
                s.take();
                for l in p.render() {
                    s.enter(&l);
                }
                s.take();
                s.enter("READ Q$:PRINT \"<\";Q$;\">\";");
                let got = render_impl(&s.take()).0;
                let mut f = Session::with(200, 30);
                for l in p.render() {
                    f.enter(&l);
                }
                f.take();
                f.enter("READ Q$:PRINT \"<\";Q$;\">\";");
                Some((got, render_impl(&f.take()).0))
            }
        });
        match r {
            Err(pn) => ctx.violation("READ-DATA/panic", pn),
            Ok(None) => ctx.skip("direct numeric READs do not reach OUT OF DATA for this program"),
            Ok(Some((got, want))) => {
                ctx.nontrivial(hash64(&(&want, h == Hist::ReadNewRetype)));
                let ok = if h == Hist::OverReadThenAppend { got.contains(&want) } else { got == want };
                if !ok {
                    ctx.violation(
                        if h == Hist::OverReadThenAppend { "READ-DATA/pointer-moved-by-a-failed-READ" } else { "READ-DATA/pointer-not-rewound-by-NEW" },
                        format!("{} : expected {:?}, got {:?}", desc, want, got),
                    );
                }
            }
        }
        return;
    }
    // ---- reference: what the LAST step must show
    let mut rq: VecDeque<String> = VecDeque::new();
    let (final_prog, expect) = match h {
        Hist::RunThenDirectRead => {
            let mut m = Machine::new(p);
            let e1 = m.run(None, &mut rq, 300);
            if e1 != End::Stopped {
                ctx.skip("reference run does not finish");
                return;
            }
            m.ev.clear();
            let e2 = m.direct(&direct_read, &mut rq, 300);
            (p.clone(), (e2, render_ref(&m.ev)))
        }
        Hist::EditDataThenRun => {
            let mut m = Machine::new(&edited);
            let e = m.run(None, &mut rq, 300);
            (edited.clone(), (e, render_ref(&m.ev)))
        }
        _ => {
            let mut m = Machine::new(p);
            let e = m.run(None, &mut rq, 300);
            (p.clone(), (e, render_ref(&m.ev)))
        }
    };
    let _ = final_prog;
    match &expect.0 {
        End::Stopped => {}
        End::Undefined(w) => {
            ctx.skip(w);
            return;
        }
        _ => {
            ctx.skip("reference run does not finish");
            return;
        }
    }
    let exp = expect.1;
    // ---- implementation
    let r = guard(|| {
        let mut s = Session::with(200, 30);
        for l in p.render() {
            s.enter(&l);
        }
        match h {
            Hist::Fresh => {}
            Hist::RunTwice => {
                s.enter("RUN");
            }
            Hist::ClearFirst => {
                s.enter("READ Q");
                s.enter("CLEAR");
            }
            Hist::DirectReadThenRun => {
                s.enter("READ Q:READ Q");
            }
            Hist::RunThenDirectRead => {
                s.enter("RUN");
            }
            Hist::EditDataThenRun => {
                s.enter("RUN");
                s.enter("5 DATA 9");
            }
            Hist::StoppedMidWayThenRun => {
                s.quantum = 1;
                s.rt.enter("RUN");
                for _ in 0..9 {
                    if s.step().is_some() {
                        break;
                    }
                }
                s.rt.interrupt();
                s.drain();
                s.quantum = 200;
            }
            Hist::RunThenRunFirstLine => {
                s.enter("RUN");
            }
            Hist::DirectReadThenRunFirstLine => {
                s.enter("READ Q:READ Q");
            }
            Hist::RenumThenRun => {
                s.enter("READ Q");
                s.enter("RENUM 1000,0,7");
            }
            Hist::RenumHighThenRun => {
                s.enter("RENUM 40000,0,5000");
            }
            Hist::OverReadThenAppend | Hist::ReadNewRetype => unreachable!(),
            Hist::DirectDataThenRun => {
                s.enter("RUN");
                s.take();
                s.enter("DATA 99,\"z\",98");
                if !s.take().iter().any(|e| matches!(e, crate::driver::Ev::Err(_))) {
                    return "a DATA statement typed as a direct line was accepted".to_string();
                }
            }
        }
        s.take();
        if h == Hist::RunThenDirectRead {
            s.enter(&render_stmts(&direct_read));
        } else if matches!(h, Hist::RunThenRunFirstLine | Hist::DirectReadThenRunFirstLine) {
            s.enter("RUN 10");
        } else {
            s.enter("RUN");
        }
        render_impl(&s.take()).0
    });
    ctx.nontrivial(hash64(&(&exp, h == Hist::RunThenDirectRead)));
    match r {
        Err(pn) => ctx.violation("READ-DATA/panic", pn),
        Ok(got) => {
            let (got, exp) = if h == Hist::RenumThenRun || h == Hist::RenumHighThenRun { (super::common::strip_lines(&got), super::common::strip_lines(&exp)) } else { (got, exp) };
            if got != exp {
                let class = match h {
                    Hist::Fresh => "wrong-order-or-conversion",
                    Hist::RunThenDirectRead => "direct-read-after-run",
                    _ => "pointer-not-rewound-by-history",
                };
                ctx.violation(&format!("READ-DATA/{}", class), format!("{} : expected {:?}, got {:?}", desc, exp, got));
            }
        }
    }
}

struct Programs {
    n: usize,
}

impl Sweep for Programs {
    fn name(&self) -> String {
        format!("data-programs-{}-lines", self.n)
    }
    fn shards(&self) -> usize {
        alphabet().len()
    }
    fn run_shard(&self, shard: usize, ctx: &mut Ctx) {
        let a = alphabet();
        let total = a.len().pow(self.n as u32 - 1);
        for idx in 0..total {
            let mut bodies = vec![&a[shard]];
            let mut x = idx;
            for _ in 1..self.n {
                bodies.push(&a[x % a.len()]);
                x /= a.len();
            }
            let p = build(&bodies);
            for h in HISTS {
                judge(&p, h, ctx);
            }
            if ctx.done() {
                return;
            }
        }
        ctx.sample();
    }
}

impl Check for C09 {
    fn id(&self) -> &'static str {
        "C09"
    }
    fn sweeps(&self, tier: Tier) -> Vec<Box<dyn Sweep>> {
        let max = tier.pick(4, 5);
        (1..=max).map(|n| Box::new(Programs { n }) as Box<dyn Sweep>).collect()
    }
    fn meta(&self, tier: Tier) -> Meta {
        Meta {
            bound: format!(
                "every program of 1..{} lines, in every order, over 20 line bodies: DATA 1 | -4,3.5 | \"two\" | 40000 | 5,\"s\",6, DATA after a PRINT, DATA inside IF 0 THEN; READ into A, A%, A$, A#, D(1), A,B$ (each followed by PRINT), conditional READ, RESTORE, RESTORE first/last/own/absent line, a loop back to the first line; each under 14 histories (RENUM then RUN - also to line numbers above 32767 -, over-read then appended DATA, NEW then retyped, fresh, RUN twice, READ then CLEAR, two direct READs then RUN, RUN then direct READ, RUN then insert a DATA line then RUN, RUN interrupted after 9 instructions then RUN, RUN then RUN 10, two direct READs then RUN 10, RUN then a direct DATA line (must be refused) then RUN)",
                tier.pick(4, 5)
            ),
            rule: "a case is (program, history); compared: the transcript of the final RUN (or direct READ); distinct_nontrivial = distinct expected transcripts".into(),
            states_note: "transitions = sessions compared with the reference interpreter's DATA model (flat constant list in source order, RESTORE n = first constant at or after line n)".into(),
            assumptions: vec![
                "conversion of a constant to the receiving variable is that of assignment (TYPE MISMATCH, OVERFLOW)".into(),
                "READ in direct mode right after RUN continues from the pointer the run left".into(),
            ],
        }
    }
}
