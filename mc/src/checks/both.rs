//! Run one session on the reference interpreter and on the implementation.

use super::c01::{render_impl, render_ref};
use crate::driver::Session;
use crate::engine::guard;
use crate::gen::*;
use crate::refmodel::interp::{End, Machine};
use std::collections::VecDeque;

pub enum Both {
    /// the reference leaves this session undefined (reason)
    Skip(String),
    Panic(String),
    Done { exp: String, got: String },
}

pub fn describe(prog: &Prog, direct: &[Vec<Stmt>]) -> String {
    let mut desc = prog.render().join(" / ");
    for d in direct {
        desc.push_str(" // ");
        desc.push_str(&render_stmts(d));
    }
    desc
}

/// `direct` lines are statement lists; the single statement Raw("RUN") means RUN.
pub fn run_both(prog: &Prog, direct: &[Vec<Stmt>], replies: &[&str], budget: u64) -> Both {
    let mut m = Machine::new(prog);
    let mut rq: VecDeque<String> = replies.iter().map(|s| s.to_string()).collect();
    for d in direct {
        let is_run = d.len() == 1 && d[0] == Stmt::Raw("RUN".into());
        // Raw("RUN n") means RUN n
        let run_at: Option<u16> = match d.first() {
            Some(Stmt::Raw(t)) if d.len() == 1 && t.starts_with("RUN ") => t[4..].trim().parse().ok(),
            _ => None,
        };
        let end = if is_run {
            m.run(None, &mut rq, budget)
        } else if run_at.is_some() {
            m.run(run_at, &mut rq, budget)
        } else {
            m.direct(d, &mut rq, budget)
        };
        match end {
            End::Stopped => {}
            End::Undefined(why) => return Both::Skip(why),
            _ => return Both::Skip("reference did not finish".into()),
        }
    }
    let exp = render_ref(&m.ev);
    let r = guard(|| {
        let mut s = Session::with(5000, 64);
        for l in prog.render() {
            s.enter(&l);
        }
        s.take();
        s.replies = replies.iter().map(|s| s.to_string()).collect();
        for d in direct {
            s.enter(&render_stmts(d));
        }
        render_impl(&s.take()).0
    });
    match r {
        Err(p) => Both::Panic(p),
        Ok(got) => Both::Done { exp, got },
    }
}
