//! C15 — the program store is an ordered map with exact LIST/DELETE ranges.
//! Explicit-state search of the complete graph: every map from a small
//! universe of line numbers to {absent, text A, text B} is reached, and from
//! every state every editing / LIST / DELETE action is executed on the real
//! interpreter and compared with a BTreeMap reference.

use super::{Check, Meta};
use crate::driver::{Ev, Session};
use crate::engine::{hash64, Sweep, Tier};
use crate::space::{SpaceModel, SpaceSweep, Step};
use std::collections::BTreeMap;

pub struct C15;

const TA: &str = "PRINT \"A\"";
const TB: &str = "PRINT \"B\"";

#[derive(Clone, Debug)]
enum Act {
    /// typed text, line number, stored text
    Insert(String, u16, &'static str),
    Bare(u16),
    /// rejected line prefix (number above 65529)
    BadPrefix(String),
    /// LIST or DELETE with operand text; parsed range or None = must be rejected
    Range(bool, String, Option<(u32, u32)>),
    /// LOAD of a file (name, lines: number and text, None = a bare number in the file)
    Load(&'static str, Vec<(u16, Option<&'static str>)>),
}

struct Model {
    universe: Vec<u16>,
    acts: Vec<(String, Act)>,
    depth: usize,
}

fn range_of(a: Option<u32>, dash: bool, b: Option<u32>) -> Option<(u32, u32)> {
    // n | n- | -n | a-b | (nothing)
    let from = a.unwrap_or(0);
    let to = match (dash, b) {
        (false, _) => a.unwrap_or(65529),
        (true, Some(b)) => b,
        (true, None) => 65529,
    };
    if from > 65529 || to > 65529 || from > to {
        None
    } else {
        Some((from, to))
    }
}

impl Model {
    fn new(universe: Vec<u16>, endpoints: Vec<u32>, depth: usize) -> Model {
        let mut acts: Vec<(String, Act)> = vec![];
        for &n in &universe {
            acts.push((format!("{} {}", n, TA), Act::Insert(format!("{} {}", n, TA), n, TA)));
            acts.push((format!("{} {}", n, TB), Act::Insert(format!("{} {}", n, TB), n, TB)));
            acts.push((format!("{}", n), Act::Bare(n)));
        }
        // line number recognition: leading blanks and zeros
        if universe.contains(&5) {
            acts.push((format!(" 5 {}", TA), Act::Insert(format!(" 5 {}", TA), 5, TA)));
            acts.push((format!("005 {}", TB), Act::Insert(format!("005 {}", TB), 5, TB)));
            acts.push(("  5".into(), Act::Bare(5)));
        }
        // lines of exactly 1023 and 1024 bytes (the limit) are stored like any other
        for total in [1023usize, 1024] {
            let n = universe[0];
            let digits = n.to_string().len();
            let text: &'static str = Box::leak(format!("PRINT \"{}\"", "x".repeat(total - digits - 1 - 8)).into_boxed_str());
            acts.push((format!("{} PRINT \"x..x\" ({} bytes)", n, total), Act::Insert(format!("{} {}", n, text), n, text)));
        }
        // an absent number outside the universe
        acts.push(("3".into(), Act::Bare(3)));
        for bad in ["65530", "65535", "65536", "99999"] {
            acts.push((format!("{} {}", bad, TA), Act::BadPrefix(format!("{} {}", bad, TA))));
        }
        for del in [false, true] {
            let word = if del { "DELETE" } else { "LIST" };
            // bare
            acts.push((word.to_string(), Act::Range(del, word.to_string(), if del { None } else { Some((0, 65529)) })));
            let mut ops: Vec<u32> = endpoints.clone();
            ops.extend([65530, 65536, 99999]);
            for &a in &ops {
                for (txt, r) in [
                    (format!("{} {}", word, a), range_of(Some(a), false, None)),
                    (format!("{} {}-", word, a), range_of(Some(a), true, None)),
                    (format!("{} -{}", word, a), range_of(None, true, Some(a))),
                ] {
                    acts.push((txt.clone(), Act::Range(del, txt, r)));
                }
            }
            for &a in &endpoints {
                for &b in &endpoints {
                    let txt = format!("{} {}-{}", word, a, b);
                    acts.push((txt.clone(), Act::Range(del, txt, range_of(Some(a), true, Some(b)))));
                }
            }
            let txt = format!("{} 1-65530", word);
            acts.push((txt.clone(), Act::Range(del, txt, None)));
        }
        // a DELETE without operands is refused wherever the statement ends (end of line, colon, ELSE)
        for txt in ["IF 1 THEN DELETE ELSE PRINT 0", "IF 0 THEN PRINT 0 ELSE DELETE", "IF 1 THEN DELETE", "DELETE:PRINT 5", "A=1:DELETE"] {
            acts.push((txt.to_string(), Act::Range(true, txt.to_string(), None)));
        }
        // files: a bare number in a file deletes the line, as at the prompt
        let u0 = universe[0];
        let u1 = universe[1 % universe.len()];
        acts.push(("LOAD \"f1\"".into(), Act::Load("f1", vec![(u0, Some(TA)), (u1, Some(TB)), (u1, None), (3, None)])));
        acts.push(("LOAD \"f2\"".into(), Act::Load("f2", vec![(u1, Some(TB)), (u0, Some(TA)), (u0, Some(TB)), (u1, None), (u1, Some(TA))])));
        Model { universe, acts, depth }
    }

    fn apply_ref(&self, map: &mut BTreeMap<u16, &'static str>, act: &Act) {
        match act {
            Act::Insert(_, n, t) => {
                map.insert(*n, t);
            }
            Act::Bare(n) => {
                map.remove(n);
            }
            Act::BadPrefix(_) => {}
            Act::Load(_, lines) => {
                map.clear();
                for (n, t) in lines {
                    match t {
                        Some(t) => {
                            map.insert(*n, *t);
                        }
                        None => {
                            map.remove(n);
                        }
                    }
                }
            }
            Act::Range(del, _, r) => {
                if *del {
                    if let Some((a, b)) = r {
                        let keys: Vec<u16> = map.keys().cloned().filter(|k| (*k as u32) >= *a && (*k as u32) <= *b).collect();
                        for k in keys {
                            map.remove(&k);
                        }
                    }
                }
            }
        }
    }
}

fn typed(a: &Act) -> &str {
    match a {
        Act::Insert(t, _, _) | Act::BadPrefix(t) | Act::Range(_, t, _) => t,
        Act::Bare(_) | Act::Load(..) => "",
    }
}

impl SpaceModel for Model {
    fn name(&self) -> String {
        format!("store-graph-{}-numbers", self.universe.len())
    }
    fn action_names(&self) -> Vec<String> {
        self.acts.iter().map(|(n, _)| n.clone()).collect()
    }
    fn max_depth(&self) -> usize {
        self.depth
    }
    fn run(&self, hist: &[usize]) -> Option<Step> {
        let mut s = Session::new();
        let mut map: BTreeMap<u16, &'static str> = BTreeMap::new();
        let mut viols = vec![];
        let mut nontrivial = None;
        for (i, &ai) in hist.iter().enumerate() {
            let (name, act) = &self.acts[ai];
            let before = map.clone();
            let text = if matches!(act, Act::Bare(_) | Act::Load(..)) { name.as_str() } else { typed(act) };
            if let Act::Load(f, lines) = act {
                let content: String = lines.iter().map(|(n, t)| match t { Some(t) => format!("{} {}\n", n, t), None => format!("{}\n", n) }).collect();
                s.files.retain(|(n, _)| n != f);
                s.files.push((f.to_string(), content));
            }
            s.enter(text);
            let ev = s.take();
            self.apply_ref(&mut map, act);
            if i + 1 != hist.len() {
                continue;
            }
            // ---- judge the last transition
            let listed: Vec<String> = ev
                .iter()
                .filter_map(|e| if let Ev::List(t, _) = e { Some(t.clone()) } else { None })
                .collect();
            let errs: Vec<String> = ev
                .iter()
                .flat_map(|e| if let Ev::Err(v) = e { v.iter().map(|x| x.code.clone()).collect() } else { vec![] })
                .collect();
            let site = match act {
                Act::Insert(..) => "insert",
                Act::Bare(_) => "bare-number",
                Act::BadPrefix(_) => "number-above-65529",
                Act::Load(..) => "LOAD",
                Act::Range(true, ..) => "DELETE",
                Act::Range(false, ..) => "LIST",
            };
            let (want_list, want_err): (Vec<String>, bool) = match act {
                Act::Range(false, _, Some((a, b))) => (
                    before
                        .iter()
                        .filter(|(k, _)| (**k as u32) >= *a && (**k as u32) <= *b)
                        .map(|(k, t)| format!("{} {}", k, t))
                        .collect(),
                    false,
                ),
                Act::Range(_, _, None) | Act::BadPrefix(_) => (vec![], true),
                _ => (vec![], false),
            };
            if listed != want_list {
                viols.push((format!("{}/wrong-lines-listed", site), format!("listed {:?}, expected {:?} (store {:?})", listed, want_list, before)));
            }
            if want_err && errs.is_empty() {
                viols.push((format!("{}/not-rejected", site), format!("{:?} was accepted", text)));
            }
            if !want_err && !errs.is_empty() {
                // a wrongly rejected action leaves the store unchanged: one root cause, one signature
                let all = matches!(act, Act::Range(true, _, Some((0, 65529))));
                viols.push((
                    format!("{}/{}", site, if all { "explicit-range-0-to-65529-rejected" } else { "rejected" }),
                    format!("{:?} gave {:?}", text, errs),
                ));
                return Some(Step { digest: hash64(&map), viols, nontrivial, terminal: true });
            }
            let have: Vec<String> = s.listing_text();
            let want: Vec<String> = map.iter().map(|(k, t)| format!("{} {}", k, t)).collect();
            if have != want {
                viols.push((format!("{}/store-differs", site), format!("store is {:?}, expected {:?} (before: {:?})", have, want, before)));
            }
            let l = s.rt.get_listing();
            let mut probe: Vec<usize> = self.universe.iter().map(|n| *n as usize).collect();
            probe.extend([2usize, 65530, 70000]);
            // numbers that wrap onto a stored line when narrowed to 16 bits
            let wrapped: Vec<usize> = self.universe.iter().map(|n| *n as usize + 65536).collect();
            probe.extend(wrapped);
            for n in probe {
                let got = l.line(n).map(|(t, _)| t);
                let exp = if n <= 65529 { map.get(&(n as u16)).map(|t| format!("{} {}", n, t)) } else { None };
                if got != exp {
                    viols.push((format!("{}/line-lookup-differs", site), format!("Listing::line({}) = {:?}, expected {:?}", n, got, exp)));
                }
            }
            nontrivial = Some(hash64(&(site, &want_list, want_err, before.len(), map.len())));
        }
        let terminal = !viols.is_empty();
        Some(Step { digest: hash64(&map), viols, nontrivial, terminal })
    }
}

impl Check for C15 {
    fn id(&self) -> &'static str {
        "C15"
    }
    fn sweeps(&self, tier: Tier) -> Vec<Box<dyn Sweep>> {
        let mut v: Vec<Box<dyn Sweep>> = vec![Box::new(SpaceSweep {
            model: Model::new(vec![0, 1, 5, 65528, 65529], vec![0, 1, 3, 5, 7, 65528, 65529], 12),
        })];
        if tier == Tier::Thorough {
            v.push(Box::new(SpaceSweep {
                model: Model::new(vec![0, 1, 5, 10, 65000, 65528, 65529], vec![0, 1, 3, 5, 7, 10, 11, 64999, 65000, 65528, 65529], 16),
            }));
        }
        v
    }
    fn meta(&self, tier: Tier) -> Meta {
        Meta {
            bound: match tier {
                Tier::Quick => "complete graph: all 3^5 = 243 maps from {0,1,5,65528,65529} to {absent, A, B}; from every state every action: insert A/B and bare number at each universe number (plus leading blank / leading zeros, and an absent number), numbers 65530, 65535, 65536, 99999 as line prefixes, LIST and DELETE in the forms bare, n, n-, -n, a-b over endpoints {0,1,3,5,7,65528,65529} (all ordered pairs, so inverted ranges too) and operands 65530, 65536, 99999".into(),
                Tier::Thorough => "as quick, plus the complete graph over the 7-number universe {0,1,5,10,65000,65528,65529} (2187 states) with 11 endpoints".into(),
            },
            rule: "a case is one transition (state, action) of the store graph, reached by replaying a shortest history; distinct_nontrivial = distinct (action kind, expected listing, rejection, store sizes)".into(),
            states_note: "states = distinct reference maps reached (the search closes: every map of the universe); transitions = (state, action) pairs executed on the implementation and compared with the BTreeMap model".into(),
            assumptions: vec![
                "state identity is the reference map; the implementation's store is compared with it after every transition, so a divergence cannot hide behind the deduplication".into(),
                "rejected = at least one error event and no change; which error code is not compared".into(),
            ],
        }
    }
}
