//! C04 — what runs is always the program that LIST shows.
//! Explicit-state search over edit histories; every RUN / RUN n (and, right
//! after an edit, every CONT / RETURN / NEXT / FN call) is compared with a
//! freshly started interpreter into which the current listing was typed.

use super::{Check, Meta};
use crate::driver::{render_codes, Session};
use crate::engine::{hash64, Sweep, Tier};
use crate::space::{SpaceModel, SpaceSweep, Step};

pub struct C04;

#[derive(Clone, Copy, PartialEq, Debug)]
enum Kind {
    /// may change the listing
    Edit,
    /// RUN / RUN n: always compared with a fresh interpreter
    Run,
    /// CONT, RETURN, NEXT, FN call: compared with a fresh interpreter when the
    /// listing changed since anything last executed
    Resume,
    /// other direct statements: must not change the listing
    Direct,
}

struct Model {
    label: &'static str,
    init: Vec<&'static str>,
    acts: Vec<(String, Kind)>,
    depth: usize,
    dedup: bool,
}

const FILE_P: &str = "10 PRINT \"L\";\n20 GOSUB 40\n30 END\n40 PRINT \"M\";:RETURN\n";

fn actions(full: bool) -> Vec<(String, Kind)> {
    let mut a: Vec<(String, Kind)> = vec![];
    let bodies_full = [
        "PRINT \"x\";",
        "PRINT \"y\";",
        "GOTO 10",
        "GOTO 30",
        "GOSUB 30",
        "RETURN",
        "FOR I=1 TO 2",
        "NEXT",
        "STOP",
        "END",
        "DEF FNA(X)=X+1",
        "PRINT FNA(1);",
        "DATA 7",
        "READ A:PRINT A;",
        "PRINT )",
        "DELETE 30",
        "DELETE 10",
        "NEW",
        // output that depends on the variable store and on the DEFtype table
        "Q=Q+1.5:PRINT Q;",
        "DEFINT Q",
        "REM",
        "'x",
    ];
    // (a remark line is a line too: it is a legal target and changes the compiled program)
    let bodies_small = ["REM", "Q=Q+1.5:PRINT Q;", "GOTO 30", "GOSUB 30", "RETURN", "STOP", "DEF FNA(X)=X+2", "PRINT )", "DELETE 30", "NEW"];
    for n in [10, 20, 30] {
        if full {
            for b in bodies_full {
                a.push((format!("{} {}", n, b), Kind::Edit));
            }
        } else {
            for b in bodies_small {
                a.push((format!("{} {}", n, b), Kind::Edit));
            }
        }
    }
    for n in ["10", "20", "30", "40", "25"] {
        a.push((n.to_string(), Kind::Edit));
    }
    for e in ["DELETE 10-20", "DELETE 25", "DELETE 20-", "RENUM", "RENUM 100", "NEW", "LOAD \"p\"", "LOAD \"missing\""] {
        a.push((e.to_string(), Kind::Edit));
    }
    for d in ["PRINT \"d\";", "A=1", "GOSUB 30", "FOR I=1 TO 3", "CLEAR", "DEFINT A-Z"] {
        a.push((d.to_string(), Kind::Direct));
    }
    for r in ["RUN", "RUN 20", "RUN 100", "RUN 110"] {
        a.push((r.to_string(), Kind::Run));
    }
    for r in ["CONT", "RETURN", "NEXT", "PRINT FNA(1);"] {
        a.push((r.to_string(), Kind::Resume));
    }
    a
}

fn new_session() -> Session {
    let mut s = Session::with(200, 40);
    s.files.push(("p".into(), FILE_P.into()));
    s
}

impl SpaceModel for Model {
    fn name(&self) -> String {
        self.label.to_string()
    }
    fn action_names(&self) -> Vec<String> {
        self.acts.iter().map(|(n, _)| n.clone()).collect()
    }
    fn max_depth(&self) -> usize {
        self.depth
    }
    fn dedup(&self) -> bool {
        self.dedup
    }
    fn run(&self, hist: &[usize]) -> Option<Step> {
        let mut s = new_session();
        for l in &self.init {
            s.enter(l);
        }
        if !self.init.is_empty() {
            // start from a program that has been run and stopped inside a subroutine
            s.enter("RUN");
        }
        s.take();
        // true while the listing has changed and nothing has executed since
        let mut edited_idle = false;
        let mut viols = vec![];
        let mut nontrivial = None;
        for (i, &ai) in hist.iter().enumerate() {
            let (text, kind) = &self.acts[ai];
            let before = s.listing_text();
            let last = i + 1 == hist.len();
            let fresh_expect = if last && (*kind == Kind::Run || (*kind == Kind::Resume && edited_idle)) {
                let mut f = new_session();
                for l in &before {
                    f.enter(l);
                }
                f.take();
                f.enter(text);
                Some(render_codes(&f.take()))
            } else {
                None
            };
            if let Err(p) = crate::engine::guard(|| {
                s.enter(text);
            }) {
                // a panic is C03's business unless it happens on a transition this check judges
                if last && fresh_expect.is_some() {
                    viols.push((format!("{}/panic", text.split(' ').next().unwrap_or("")), p));
                }
                return Some(Step { digest: hash64(&("panic", hist)), viols, nontrivial, terminal: true });
            }
            let ev = s.take();
            let after = s.listing_text();
            if last {
                let got = render_codes(&ev);
                if let Some(exp) = fresh_expect {
                    nontrivial = Some(hash64(&(text, &exp)));
                    if got != exp {
                        let site = match kind {
                            Kind::Run => "RUN",
                            _ => text.split(' ').next().unwrap_or("resume"),
                        };
                        viols.push((
                            format!("{}/differs-from-fresh-interpreter", site),
                            format!("listing {:?}: history-laden interpreter gave {:?}, fresh one {:?}", before, got, exp),
                        ));
                    }
                }
                // a program may edit itself with DELETE / NEW (both end the run)
                let self_editing = before.iter().any(|l| l.contains("DELETE") || l.contains("NEW"));
                if matches!(kind, Kind::Direct | Kind::Run | Kind::Resume) && !self_editing && before != after {
                    viols.push((
                        "direct-statement/changes-listing".to_string(),
                        format!("{:?} changed the listing from {:?} to {:?}", text, before, after),
                    ));
                }
            }
            match kind {
                Kind::Edit => {
                    if before != after {
                        edited_idle = true;
                    }
                }
                // DELETE / NEW executed by the program: an edit after which nothing has executed
                _ => edited_idle = before != after,
            }
        }
        let d = hash64(&(s.rt.verif_digest(), edited_idle));
        Some(Step { digest: d, viols, nontrivial, terminal: false })
    }
}

const P0: [&str; 4] = ["10 PRINT \"a\";", "20 GOSUB 40", "30 END", "40 PRINT \"s\";:STOP:RETURN"];

impl Check for C04 {
    fn id(&self) -> &'static str {
        "C04"
    }
    fn sweeps(&self, tier: Tier) -> Vec<Box<dyn Sweep>> {
        let mk = |label: &'static str, init: Vec<&'static str>, full: bool, depth: usize, dedup: bool| -> Box<dyn Sweep> {
            Box::new(SpaceSweep { model: Model { label, init, acts: actions(full), depth, dedup } })
        };
        match tier {
            Tier::Quick => vec![
                mk("edit-histories-from-stopped-program-nodedup", P0.to_vec(), false, 3, false),
                mk("edit-histories-from-empty", vec![], false, 4, true),
                mk("edit-histories-from-stopped-program", P0.to_vec(), false, 4, true),
                mk("edit-histories-full-alphabet", P0.to_vec(), true, 3, true),
            ],
            Tier::Thorough => vec![
                mk("edit-histories-from-stopped-program-nodedup", P0.to_vec(), false, 4, false),
                mk("edit-histories-from-empty", vec![], false, 5, true),
                mk("edit-histories-from-stopped-program", P0.to_vec(), false, 5, true),
                mk("edit-histories-full-alphabet", P0.to_vec(), true, 4, true),
            ],
        }
    }
    fn meta(&self, tier: Tier) -> Meta {
        let d = tier.pick(4, 5);
        Meta {
            bound: format!(
                "breadth-first search over all histories of depth <= {} over 54 actions (27 line edits on lines 10/20/30 incl. a body whose output depends on the variable store and the DEFtype table, bare numbers present and absent, DELETE ranges hitting and missing, RENUM, RENUM 100, NEW, LOAD of a file and of a missing file, 6 non-editing direct statements incl. DEFINT A-Z, RUN, RUN 20/100/110, CONT, RETURN, NEXT, FN call), from the empty interpreter and from a 4-line program that was run and stopped inside a subroutine; the 87-action alphabet (20 bodies per line, including DELETE, NEW and DEFINT executed by the program itself) to depth {}; states deduplicated by the full state digest, and a run without deduplication to depth {} as a cross-check",
                d,
                d - 1,
                d - 1
            ),
            rule: "a case is one transition (history, action); distinct_nontrivial = distinct (action, fresh-interpreter transcript) pairs among judged RUN / resume transitions".into(),
            states_note: "states = distinct full-state digests (hook verif_digest + the harness's edited-and-idle flag); transitions = actions executed on the implementation; every judged transition is compared with a fresh interpreter fed Runtime::get_listing()".into(),
            assumptions: vec![
                "CONT / RETURN / NEXT / FN calls are judged only when the listing text changed and nothing has executed since (the property's 'nothing of the previous execution can be resumed into the edited program')".into(),
                "typing a bare number for an absent line does not change the listing and therefore does not count as an edit for the resume rule, but RUN after it is still compared with the fresh interpreter".into(),
                "error events are compared by code and line".into(),
            ],
        }
    }
}
