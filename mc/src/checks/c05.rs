//! C05 — listing fidelity: LIST / SAVE then LOAD preserve every line's meaning.
//! Exhaustive sweep over all short strings (several alphabets) through the
//! public Line / lex / Listing API: listed text re-entered gives the same
//! number and the same parsed statements (or is rejected in both cases), is a
//! fixed point when it parses, keeps string and remark text, and survives
//! load_str / Listing::line.

use super::{Check, Meta};
use crate::engine::{guard, hash64, Ctx, Sweep, Tier};
use basic::lang::token::{Literal, Token};
use basic::lang::Line as BLine;
use basic::mach::Listing;

pub struct C05;

pub fn ast_norm(l: &BLine) -> String {
    match l.ast() {
        Err(_) => "Err".to_string(),
        Ok(a) => {
            let d = format!("{:?}", a);
            let cs: Vec<char> = d.chars().collect();
            let mut out = String::new();
            let mut i = 0;
            while i < cs.len() {
                if cs[i].is_ascii_digit() && (i == 0 || !(cs[i - 1].is_ascii_alphanumeric() || cs[i - 1] == '.' || cs[i - 1] == '"')) {
                    let mut j = i;
                    while j < cs.len() && cs[j].is_ascii_digit() {
                        j += 1;
                    }
                    if j + 2 < cs.len() && cs[j] == '.' && cs[j + 1] == '.' && cs[j + 2].is_ascii_digit() {
                        let mut k = j + 2;
                        while k < cs.len() && cs[k].is_ascii_digit() {
                            k += 1;
                        }
                        out.push('_');
                        i = k;
                        continue;
                    }
                    out.extend(cs[i..j].iter());
                    i = j;
                    continue;
                }
                out.push(cs[i]);
                i += 1;
            }
            out
        }
    }
}

fn texts(tokens: &[Token]) -> Vec<String> {
    // string literals and remark text, trailing blanks aside
    let mut v = vec![];
    let mut rem = false;
    for t in tokens {
        match t {
            Token::Literal(Literal::String(s)) => v.push(format!("S:{}", s)),
            Token::Word(w) if matches!(w, basic::lang::token::Word::Rem1 | basic::lang::token::Word::Rem2) => rem = true,
            Token::Unknown(s) if rem => {
                if !s.trim_end().is_empty() {
                    v.push(format!("R:{}", s.trim_end()))
                }
            }
            _ => {}
        }
    }
    v
}

/// Returns (signature, detail) of the first broken clause.
pub fn fidelity(s: &str) -> Option<(String, String)> {
    let r = guard(|| {
        let l0 = BLine::new(s);
        let t1 = l0.to_string();
        let l1 = BLine::new(&t1);
        let t2 = l1.to_string();
        if l0.number() != l1.number() {
            return Some(("line-number-changes".to_string(), format!("{:?} has number {:?}; its listing {:?} has {:?}", s, l0.number(), t1, l1.number())));
        }
        let a0 = ast_norm(&l0);
        let a1 = ast_norm(&l1);
        if a0 != a1 {
            let class = if a0 == "Err" {
                "rejected-line-lists-as-accepted"
            } else if a1 == "Err" {
                "accepted-line-lists-as-rejected"
            } else {
                "meaning-changes"
            };
            return Some((class.to_string(), format!("{:?} parses to {}; its listing {:?} parses to {}", s, a0, t1, a1)));
        }
        if a0 != "Err" && t2 != t1 {
            return Some(("listing-not-a-fixed-point".to_string(), format!("{:?} lists as {:?}, which lists as {:?}", s, t1, t2)));
        }
        let (_, k0) = basic::lang::lex(s);
        let (_, k1) = basic::lang::lex(&t1);
        if texts(&k0) != texts(&k1) {
            // one known root cause has its own signature: REM recognised inside
            // a run of letters/digits does not switch the scanner to remark mode
            let up = s.to_ascii_uppercase();
            let cs: Vec<char> = up.chars().collect();
            let mut glued = false;
            for i in 0..cs.len().saturating_sub(2) {
                if cs[i] == 'R' && cs[i + 1] == 'E' && cs[i + 2] == 'M' {
                    let before = i > 0 && cs[i - 1].is_ascii_alphabetic();
                    let after = i + 3 < cs.len() && (cs[i + 3].is_ascii_alphanumeric() || "$%!#".contains(cs[i + 3]));
                    if before || after {
                        glued = true;
                    }
                }
            }
            let class = if glued { "remark-text-glued-to-REM-is-tokenised" } else { "string-or-remark-text-changes" };
            return Some((class.to_string(), format!("{:?}: {:?} became {:?}", s, texts(&k0), texts(&k1))));
        }
        // SAVE writes to_string(), LOAD calls load_str; TAB edit uses Listing::line
        if let Some(n) = l0.number() {
            if !l0.is_empty() && s.len() <= 1024 {
                let mut listing = Listing::default();
                match listing.load_str(&t1) {
                    Err(e) => {
                        return Some((
                            if t1.len() > 1024 { "listed-text-exceeds-line-limit" } else { "saved-line-does-not-load" }.to_string(),
                            format!("{:?} ({} bytes) lists as {} bytes; LOAD says {}", s.chars().take(30).collect::<String>(), s.len(), t1.len(), e),
                        ));
                    }
                    Ok(()) => {
                        let back = listing.line(n as usize).map(|(t, _)| t);
                        // the fixed point is promised for lines that parse
                        if a0 != "Err" && back.as_deref() != Some(t1.as_str()) {
                            return Some(("loaded-line-differs".to_string(), format!("saved {:?}, loaded back {:?}", t1, back)));
                        }
                    }
                }
            }
        }
        None
    });
    match r {
        Ok(v) => v,
        Err(p) => Some((crate::engine::panic_class(&p), p)),
    }
}

fn judge(s: &str, buf: &mut String, ctx: &mut Ctx) {
    for prefix in ["", "10 "] {
        buf.clear();
        buf.push_str(prefix);
        buf.push_str(s);
        if !ctx.begin(buf) {
            continue;
        }
        if let Some((sig, detail)) = fidelity(buf) {
            ctx.violation(&sig, detail);
        }
    }
}

struct Strings {
    n: usize,
    alpha: Vec<&'static str>,
    label: &'static str,
}

impl Sweep for Strings {
    fn name(&self) -> String {
        format!("all-strings-{}-len-{}", self.label, self.n)
    }
    fn shards(&self) -> usize {
        self.alpha.len() * self.alpha.len()
    }
    fn crash_is_verdict(&self) -> bool {
        true
    }
    fn run_shard(&self, shard: usize, ctx: &mut Ctx) {
        let a = &self.alpha;
        let (c0, c1) = (a[shard / a.len()], a[shard % a.len()]);
        let mut buf = String::new();
        if shard % a.len() == 0 {
            judge(c0, &mut buf, ctx);
        }
        let mut s = format!("{}{}", c0, c1);
        judge(&s, &mut buf, ctx);
        let base = s.len();
        for len in 3..=self.n {
            let extra = len - 2;
            let total = a.len().pow(extra as u32);
            for idx in 0..total {
                s.truncate(base);
                let mut x = idx;
                for _ in 0..extra {
                    s.push_str(a[x % a.len()]);
                    x /= a.len();
                }
                judge(&s, &mut buf, ctx);
                if ctx.done() {
                    return;
                }
            }
        }
        ctx.nontrivial(hash64(&(self.label, c0, c1)));
        if shard % 300 == 0 {
            ctx.sample();
        }
    }
}

fn sigma5() -> Vec<&'static str> {
    let mut v = super::c03::SIGMA.to_vec();
    v.extend(["r", "m", "t", "h", "n", "M"]);
    v
}

/// lines around the 1024-byte limit whose listing is longer than the source
struct Limit;

fn limit_units() -> Vec<(&'static str, &'static str, &'static str)> {
    vec![
        ("A=1", "OR1", ""),
        ("A=1", "AND1", ""),
        ("PRINT1", ";1", ""),
        ("REM", "x", ""),
        ("PRINT \"", "y", "\""),
        ("A=1", "+1", ""),
        ("IF1THEN", "IF1THEN", "END"),
        ("A=1", "MOD2", ""),
        ("", "GOTO1:", ""),
        ("PRINT \"a\"", ": '", "----"),
    ]
}

impl Sweep for Limit {
    fn name(&self) -> String {
        "lines-at-the-length-limit".into()
    }
    fn shards(&self) -> usize {
        limit_units().len()
    }
    fn run_shard(&self, shard: usize, ctx: &mut Ctx) {
        let (p, u, s) = limit_units()[shard];
        for total in [200usize, 512, 1000, 1015, 1016, 1017, 1018, 1019, 1020, 1021, 1022, 1023, 1024] {
            let fixed = 3 + p.len() + s.len();
            if total < fixed + u.len() {
                continue;
            }
            let reps = (total - fixed) / u.len();
            let pad = total - fixed - reps * u.len();
            // pad with blanks inside a trailing remark-free position: extend the first token
            let line = format!("10 {}{}{}{}", p, u.repeat(reps), s, " ".repeat(0));
            let _ = pad;
            if ctx.begin(&format!("{} bytes: 10 {}{}*{}{}", line.len(), p, u, reps, s)) {
                if let Some((sig, detail)) = fidelity(&line) {
                    ctx.violation(&sig, detail);
                }
                ctx.nontrivial(hash64(&(shard, total)));
            }
            // exact target lengths by padding a remark
            for exact in [1023usize, 1024] {
                let base = format!("10 {}{}{}", p, u.repeat(reps.saturating_sub(3)), s);
                if base.len() + 2 > exact || p == "REM" {
                    continue;
                }
                let line = format!("{}:'{}", base, "z".repeat(exact - base.len() - 2));
                if !ctx.begin(&format!("{} bytes exactly: {}...", line.len(), &line[..40.min(line.len())])) {
                    continue;
                }
                if let Some((sig, detail)) = fidelity(&line) {
                    ctx.violation(&sig, detail);
                }
            }
        }
        // a remark / string line of exactly 1022..1024 bytes: listing adds nothing
        for exact in [1022usize, 1023, 1024] {
            for head in ["10 REM ", "10 ' ", "10 PRINT \""] {
                let tail = if head.ends_with('"') { "\"" } else { "" };
                let line = format!("{}{}{}", head, "q".repeat(exact - head.len() - tail.len()), tail);
                if !ctx.begin(&format!("{} bytes exactly: {}...", line.len(), head)) {
                    continue;
                }
                if let Some((sig, detail)) = fidelity(&line) {
                    ctx.violation(&sig, detail);
                }
            }
        }
        ctx.sample();
    }
}

/// Whatever the interpreter holds as its listing must load back: lines typed at
/// the prompt around the 1024-byte limit with multi-byte text (the limit is in
/// bytes at the prompt and in LOAD alike), and programs renumbered up to the
/// last line number.
struct Stored;

impl Sweep for Stored {
    fn name(&self) -> String {
        "stored-listing-loads-back".into()
    }
    fn shards(&self) -> usize {
        3
    }
    fn run_shard(&self, shard: usize, ctx: &mut Ctx) {
        use crate::driver::Session;
        let loads_back = |listing: &[String]| -> Option<String> {
            let mut l = Listing::default();
            for t in listing {
                if let Err(e) = l.load_str(t) {
                    return Some(format!("LOAD of {:?}... ({} bytes, {} characters) says {}", t.chars().take(24).collect::<String>(), t.len(), t.chars().count(), e));
                }
                let n = BLine::new(t).number();
                match n {
                    None => return Some(format!("listed line {:?}... has no line number when entered again", t.chars().take(24).collect::<String>())),
                    Some(n) => {
                        if l.line(n as usize).map(|(x, _)| x).as_deref() != Some(t.as_str()) {
                            return Some(format!("line {} does not come back as listed", n));
                        }
                    }
                }
            }
            None
        };
        if shard == 2 {
            // crunched lines in which the same reserved word occurs twice (or overlaps another) in one run of letters
            let words = ["AND", "OR", "XOR", "EQV", "IMP", "MOD", "NOT", "TO", "THEN", "ELSE", "GOTO", "STEP", "FOR", "IF", "ON"];
            for w in words {
                for v in words {
                    for shape in [
                        format!("10 IFA{}B{}CTHEN1", w, v),
                        format!("10 X=A{}B{}C{}D", w, v, w),
                        format!("10 PRINTA{}B{}C", w, v),
                        format!("10 {}A{}B={}", w, v, w),
                        format!("10 A{}{}B", w, v),
                    ] {
                        for line in [shape.clone(), shape.to_ascii_lowercase()] {
                            if !ctx.begin(&line) {
                                continue;
                            }
                            ctx.nontrivial(hash64(&(w, v)));
                            if let Some((sig, detail)) = fidelity(&line) {
                                ctx.violation(&sig, detail);
                            }
                        }
                    }
                }
            }
            ctx.sample();
            return;
        }
        if shard == 0 {
            for c in ["x", "é", "日", "😀"] {
                for head in ["10 PRINT \"", "10 REM ", "10 A$=\"q\":B$=\""] {
                    for bytes in [900usize, 1016, 1020, 1021, 1022, 1023, 1024, 1025, 1026, 1027, 1028, 1032, 1100, 1500, 2047, 2048, 2052, 4096] {
                        let tail = if head.ends_with('"') { "\"" } else { "" };
                        if bytes < head.len() + tail.len() + c.len() {
                            continue;
                        }
                        let reps = (bytes - head.len() - tail.len()) / c.len();
                        for r in [reps, reps + 1] {
                            let line = format!("{}{}{}", head, c.repeat(r), tail);
                            if !ctx.begin(&format!("typed at the prompt: {}{}*{}{} ({} bytes, {} characters)", head, c, r, tail, line.len(), line.chars().count())) {
                                continue;
                            }
                            let res = guard(|| {
                                let mut s = Session::new();
                                s.enter(&line);
                                s.take();
                                s.listing_text()
                            });
                            match res {
                                Err(p) => ctx.violation(&crate::engine::panic_class(&p), p),
                                Ok(listing) => {
                                    ctx.nontrivial(hash64(&(c, head, listing.is_empty(), line.len().min(1030))));
                                    if let Some(why) = loads_back(&listing) {
                                        ctx.violation("accepted-line-does-not-load", why);
                                    }
                                }
                            }
                        }
                    }
                }
            }
        } else {
            let progs: [[&str; 3]; 3] = [
                ["10 PRINT \"a\":GOTO 20", "20 GOSUB 30:END", "30 RETURN"],
                ["65000 PRINT \"a\"", "65010 GOTO 65000", "65529 END"],
                ["0 REM", "1 GOTO 0", "65529 END"],
            ];
            for p in progs {
                for new in [0u32, 1, 65000, 65500, 65519, 65520, 65525, 65527, 65528, 65529] {
                    for old in ["", "0", "20", "65010"] {
                        for step in [1u32, 2, 3, 5, 10, 100, 32768, 65529] {
                            let cmd = format!("RENUM {},{},{}", new, old, step);
                            if !ctx.begin(&format!("{} // {}", p.join(" / "), cmd)) {
                                continue;
                            }
                            let res = guard(|| {
                                let mut s = Session::new();
                                for l in p {
                                    s.enter(l);
                                }
                                s.take();
                                s.enter(&cmd);
                                s.take();
                                s.listing_text()
                            });
                            match res {
                                Err(pn) => ctx.violation(&crate::engine::panic_class(&pn), pn),
                                Ok(listing) => {
                                    ctx.nontrivial(hash64(&listing));
                                    if let Some(why) = loads_back(&listing) {
                                        ctx.violation("renumbered-listing-does-not-load", format!("{} : {}", cmd, why));
                                    }
                                }
                            }
                        }
                    }
                }
            }
        }
        ctx.sample();
    }
}

impl Check for C05 {
    fn id(&self) -> &'static str {
        "C05"
    }
    fn sweeps(&self, tier: Tier) -> Vec<Box<dyn Sweep>> {
        let numeric = vec!["1", ".", "E", "e", "D", "d", "+", "-", "!", "#", "%", "A", " ", "&", "H"];
        let operators = vec!["?", "1", "A", "<", ">", "=", " ", "(", ")", "\"", ":"];
        let words = vec!["r", "e", "m", "R", "E", "M", "'", " ", "1", ":", "\"", "t", "o", "g", "T", "O", "G", "$"];
        vec![
            Box::new(Limit),
            Box::new(Stored),
            Box::new(Strings { n: tier.pick(4, 5), alpha: sigma5(), label: "sigma5" }),
            Box::new(Strings { n: tier.pick(6, 7), alpha: numeric, label: "numeric" }),
            Box::new(Strings { n: tier.pick(6, 8), alpha: operators, label: "operators" }),
            Box::new(Strings { n: tier.pick(5, 6), alpha: words, label: "words" }),
        ]
    }
    fn meta(&self, tier: Tier) -> Meta {
        Meta {
            bound: match tier {
                Tier::Quick => "every string of length <=4 over the 47-symbol alphabet (C03's plus lower-case r m t h n M), <=6 over the 15-symbol numeric alphabet {1 . E e D d + - ! # % A blank & H}, <=6 over the 11-symbol operator alphabet {? 1 A < > = blank ( ) \" :}, <=5 over the 18-symbol word alphabet (REM, ', GO TO letters, quotes), each as a direct line and with the prefix '10 '; plus 10 repetition shapes at 13 lengths up to the 1024-byte limit and exact 1022/1023/1024-byte lines".into(),
                Tier::Thorough => "as quick with lengths 5 / 7 / 8 / 6".into(),
            },
            rule: "a case is one source line; clauses: same number, same parsed statements or both rejected, fixed point when it parses, string/remark text kept, load_str and Listing::line give the listed text back; distinct_nontrivial counts shards (first two characters per alphabet)".into(),
            states_note: "transitions = lines pushed through Line::new -> to_string -> Line::new -> load_str".into(),
            assumptions: vec![
                "SAVE/LOAD fidelity is checked at Line::to_string and Listing::load_str, the two calls that path makes (src/term is not executed)".into(),
                "parsed statements are compared with their column ranges erased".into(),
            ],
        }
    }
}
