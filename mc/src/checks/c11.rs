//! C11 — PRINT lays out output exactly as documented.
//! (a) every print list of a bounded grammar (strings, numbers of each type,
//! TAB / SPC / POS, separators ; , juxtaposition, trailing ; ,) in sequences of
//! up to three PRINT statements, optionally interleaved with the other things
//! that move the cursor (INPUT, trace brackets, an error, LIST, CLS), against
//! the reference cursor model; (b) number formatting over all i16, a
//! structured / exhaustive set of f32 and a structured set of f64 values.

use super::c01::{render_impl, render_ref};
use super::{Check, Meta};
use crate::driver::Session;
use crate::engine::{guard, hash64, Ctx, Step, Sweep, Tier};
use crate::gen::*;
use crate::refmodel::interp::{End, Machine};
use crate::refmodel::print::check_number_text;
use crate::refmodel::value::V;
use basic::mach::Val;
use serde_json::Value;
use std::collections::VecDeque;

pub struct C11;

const PARTS: usize = 16;

fn call(name: &str, n: i16) -> Expr {
    Expr::Call(name.into(), vec![int(n)])
}

fn items() -> Vec<Expr> {
    vec![
        strlit(""),
        strlit("A"),
        strlit("1234567890123"),
        strlit("12345678901234"),
        strlit("é"),
        int(7),
        Expr::Lit(V::Sng(1.5), "1.5".into()),
        Expr::Lit(V::Dbl(0.25), "0.25#".into()),
        Expr::Lit(V::Sng(100000.0), "100000".into()),
        call("TAB", 0),
        call("TAB", 1),
        call("TAB", 5),
        call("TAB", 14),
        call("TAB", 15),
        call("TAB", 28),
        call("SPC", 0),
        call("SPC", 3),
        call("POS", 0),
    ]
}

/// items that may only follow an explicit separator (they start with a sign)
fn signed_items() -> Vec<Expr> {
    vec![int(-3), Expr::Neg(Box::new(Expr::Lit(V::Sng(2.5), "2.5".into())))]
}

#[derive(Clone, Copy, PartialEq, Debug)]
enum Sep {
    Semi,
    Comma,
    Juxta,
}

/// all print lists with exactly `n` items
fn lists(n: usize, out: &mut Vec<Vec<PItem>>) {
    lists_with_first(n, None, &mut |l| out.push(l));
}

/// all print lists with exactly `n` items (optionally only those whose first
/// item has index `first`), generated lazily
fn lists_with_first(n: usize, first: Option<usize>, out: &mut dyn FnMut(Vec<PItem>)) {
    struct Sink<'a>(&'a mut dyn FnMut(Vec<PItem>));
    impl<'a> Sink<'a> {
        fn push(&mut self, l: Vec<PItem>) {
            (self.0)(l)
        }
    }
    let mut out = Sink(out);
    let it = items();
    let signed = signed_items();
    let seps = [Sep::Semi, Sep::Comma, Sep::Juxta];
    let trails: [Option<PItem>; 3] = [None, Some(PItem::Semi), Some(PItem::Comma)];
    if n == 0 {
        out.push(vec![]);
        out.push(vec![PItem::Semi]);
        out.push(vec![PItem::Comma]);
        out.push(vec![PItem::Comma, PItem::Comma]);
        return;
    }
    let all: Vec<(Expr, bool)> = it.iter().map(|e| (e.clone(), false)).chain(signed.iter().map(|e| (e.clone(), true))).collect();
    let total = all.len().pow(n as u32) * seps.len().pow(n as u32 - 1);
    for idx in 0..total {
        let mut x = idx;
        let mut chosen = vec![];
        if let Some(f) = first {
            if x % all.len() != f {
                continue;
            }
        }
        for _ in 0..n {
            chosen.push(&all[x % all.len()]);
            x /= all.len();
        }
        let mut ss = vec![];
        for _ in 1..n {
            ss.push(seps[x % 3]);
            x /= 3;
        }
        // a signed item directly after a juxtaposition would be a binary operator
        let mut ok = true;
        for k in 1..n {
            if chosen[k].1 && ss[k - 1] == Sep::Juxta {
                ok = false;
            }
        }
        if !ok {
            continue;
        }
        for t in &trails {
            let mut l = vec![];
            for k in 0..n {
                if k > 0 {
                    match ss[k - 1] {
                        Sep::Semi => l.push(PItem::Semi),
                        Sep::Comma => l.push(PItem::Comma),
                        Sep::Juxta => {}
                    }
                }
                l.push(PItem::E(chosen[k].0.clone()));
            }
            if let Some(t) = t {
                l.push(t.clone());
            }
            out.push(l);
        }
    }
}

/// Compare the interpreter with the reference on a session: stored program,
/// direct lines (each a statement list), replies.
pub fn judge_session(site: &str, prog: &Prog, direct: &[Vec<Stmt>], replies: &[&str], ctx: &mut Ctx) {
    let mut desc = prog.render().join(" / ");
    for d in direct {
        desc.push_str(" // ");
        desc.push_str(&render_stmts(d));
    }
    if !ctx.begin(&desc) {
        return;
    }
    // reference
    let mut m = Machine::new(prog);
    let mut rq: VecDeque<String> = replies.iter().map(|s| s.to_string()).collect();
    for d in direct {
        let is_run = d.len() == 1 && d[0] == Stmt::Raw("RUN".into());
        let end = if is_run { m.run(None, &mut rq, 500) } else { m.direct(d, &mut rq, 500) };
        match end {
            End::Stopped => {}
            End::Undefined(why) => {
                ctx.skip(&why);
                return;
            }
            _ => {
                ctx.skip("reference did not finish");
                return;
            }
        }
    }
    let exp = render_ref(&m.ev);
    let r = guard(|| {
        let mut s = Session::new();
        for l in prog.render() {
            s.enter(&l);
        }
        s.take();
        s.replies = replies.iter().map(|s| s.to_string()).collect();
        for d in direct {
            s.enter(&render_stmts(d));
        }
        // (the request for a key is an event of the protocol, not output)
        render_impl(&s.take()).0.replace("\u{1}INKEY\u{2}", "")
    });
    ctx.nontrivial(hash64(&exp));
    match r {
        Err(p) => ctx.violation(&format!("{}/panic", site), p),
        Ok(got) => {
            if got != exp {
                ctx.violation(&format!("{}/layout-differs", site), format!("{} : expected {:?}, interpreter printed {:?}", desc, exp, got));
            }
        }
    }
}

struct Layout {
    thorough: bool,
}

fn probe() -> Stmt {
    // shows where the cursor is believed to be: POS, then a zone advance, then TAB
    Stmt::Print(vec![PItem::E(call("POS", 0)), PItem::Semi, PItem::E(strlit("x")), PItem::Comma, PItem::E(strlit("y")), PItem::E(call("TAB", 40)), PItem::E(strlit("z"))])
}

impl Sweep for Layout {
    fn name(&self) -> String {
        "print-lists".into()
    }
    fn shards(&self) -> usize {
        // shard = first item of the 3-item lists (0..20), then the other families
        20 + 7 * PARTS
    }
    fn run_shard(&self, shard: usize, ctx: &mut Ctx) {
        let empty = Prog::default();
        let n_all = items().len() + signed_items().len();
        if shard < 20 {
            if shard >= n_all {
                return;
            }
            // single statements with three items whose first item is #shard
            lists_with_first(3, Some(shard), &mut |l| {
                if !ctx.done() {
                    judge_session("single-statement", &empty, &[vec![Stmt::Print(l), probe()]], &[], ctx);
                }
            });
            ctx.sample();
            return;
        }
        let mut l0 = vec![];
        lists(0, &mut l0);
        let mut l1 = vec![];
        lists(1, &mut l1);
        let mut l2 = vec![];
        lists(2, &mut l2);
        let mut small = l0.clone();
        small.extend(l1.clone());
        let part = (shard - 20) % PARTS;
        let mine = |i: usize| i % PARTS == part;
        match (shard - 20) / PARTS {
            0 => {
                // one statement, up to two items
                for (ai, l) in small.iter().chain(l2.iter()).enumerate() {
                    if !mine(ai) {
                        continue;
                    }
                    judge_session("single-statement", &empty, &[vec![Stmt::Print(l.clone()), probe()]], &[], ctx);
                }
            }
            1 => {
                // two statements: (<=2 items) then (<=1 item), on one direct line and on two
                let mut firsts = small.clone();
                firsts.extend(l2.clone());
                for (ai, a) in firsts.iter().enumerate() {
                    if !mine(ai) {
                        continue;
                    }
                    for b in &small {
                        judge_session("two-statements", &empty, &[vec![Stmt::Print(a.clone()), Stmt::Print(b.clone()), probe()]], &[], ctx);
                        if self.thorough {
                            judge_session("two-lines", &empty, &[vec![Stmt::Print(a.clone())], vec![Stmt::Print(b.clone()), probe()]], &[], ctx);
                        }
                    }
                }
            }
            2 => {
                // three statements of <=1 item
                let third: Vec<&Vec<PItem>> = if self.thorough { small.iter().collect() } else { small.iter().step_by(3).collect() };
                for (ai, a) in small.iter().enumerate() {
                    if !mine(ai) {
                        continue;
                    }
                    for b in &small {
                        for c in &third {
                            judge_session("three-statements", &empty, &[vec![Stmt::Print(a.clone()), Stmt::Print(b.clone()), Stmt::Print((*c).clone()), probe()]], &[], ctx);
                        }
                    }
                }
            }
            3 => {
                // the other things that move the cursor, between a PRINT and the probe
                let p1 = Prog { lines: vec![Line { num: 10, stmts: vec![Stmt::Rem("X".into())] }] };
                for (ai, a) in small.iter().chain(l2.iter()).enumerate() {
                    if !mine(ai) {
                        continue;
                    }
                    let pa = Stmt::Print(a.clone());
                    // INPUT
                    judge_session("after-INPUT", &empty, &[vec![pa.clone(), Stmt::Input(None, vec![LVal::Var("I".into())]), probe()]], &["5"], ctx);
                    judge_session("after-INPUT", &empty, &[vec![pa.clone(), Stmt::Input(Some("q".into()), vec![LVal::Var("I".into())]), Stmt::Print(vec![PItem::E(var("I")), PItem::Semi]), probe()]], &["x", "5"], ctx);
                    // error, then the next line
                    judge_session("after-error", &empty, &[vec![pa.clone(), Stmt::Let(LVal::Var("Q%".into()), int(32767)), Stmt::Let(LVal::Var("Q%".into()), bin(crate::refmodel::value::BinOp::Add, var("Q%"), int(1)))], vec![probe()]], &[], ctx);
                    // INKEY$ (no key waiting): the driver answers through enter(), nothing is echoed
                    let inkey = Stmt::Let(LVal::Var("K$".into()), var("INKEY$"));
                    judge_session("after-INKEY", &empty, &[vec![pa.clone(), inkey.clone(), probe()]], &[], ctx);
                    let pk = Prog { lines: vec![Line { num: 10, stmts: vec![pa.clone(), inkey.clone()] }, Line { num: 20, stmts: vec![probe()] }] };
                    judge_session("after-INKEY", &pk, &[vec![Stmt::Raw("RUN".into())]], &[], ctx);
                    // CLS and LIST
                    judge_session("after-CLS", &empty, &[vec![pa.clone(), Stmt::Cls, probe()]], &[], ctx);
                    judge_session("after-LIST", &p1, &[vec![pa.clone(), Stmt::List, probe()]], &[], ctx);
                    judge_session("after-LIST-of-nothing", &empty, &[vec![pa.clone(), Stmt::List, probe()]], &[], ctx);
                    // STOP and END inside a program, CONT is C13's business: only the prompt's newline
                    let p2 = Prog { lines: vec![Line { num: 10, stmts: vec![pa.clone()] }, Line { num: 20, stmts: vec![Stmt::Stop] }] };
                    judge_session("after-STOP", &p2, &[vec![Stmt::Raw("RUN".into())], vec![probe()]], &[], ctx);
                }
            }
            4 => {
                // trace brackets count as printed characters
                for (ai, a) in small.iter().chain(l2.iter()).enumerate() {
                    if !mine(ai) {
                        continue;
                    }
                    for b in &small {
                        if *b == vec![PItem::Semi] {
                            // PRINT; generates no code: whether such a line is 'entered' is not defined
                            continue;
                        }
                        let p = Prog {
                            lines: vec![
                                Line { num: 10, stmts: vec![Stmt::Tron, Stmt::Print(a.clone())] },
                                Line { num: 200, stmts: vec![Stmt::Print(b.clone())] },
                                Line { num: 3000, stmts: vec![probe(), Stmt::Troff] },
                            ],
                        };
                        judge_session("with-trace", &p, &[vec![Stmt::Raw("RUN".into())]], &[], ctx);
                    }
                }
            }
            6 => {
                // long unterminated lines: the column keeps counting past 80, 255, 256
                let cols = [13usize, 14, 15, 27, 28, 70, 79, 80, 81, 90, 100, 159, 160, 161, 254, 255, 256, 300, 511, 512];
                let mut ops: Vec<PItem> = vec![PItem::Comma, PItem::E(call("POS", 0)), PItem::E(call("SPC", 3))];
                for t in [0i16, 1, 14, 15, 28, 30, 79, 80, 81, 90, 160, 255] {
                    ops.push(PItem::E(call("TAB", t)));
                }
                for (ci, col) in cols.iter().enumerate() {
                    if !mine(ci) {
                        continue;
                    }
                    for ch in ["x", "é"] {
                        let mut lead = vec![];
                        let mut left = *col;
                        while left > 0 {
                            let n = left.min(255);
                            lead.push(PItem::E(Expr::Call("STRING$".into(), vec![int(n as i16), strlit(ch)])));
                            lead.push(PItem::Semi);
                            left -= n;
                        }
                        for op in &ops {
                            let mut l = lead.clone();
                            l.push(op.clone());
                            l.push(PItem::E(strlit("w")));
                            l.push(PItem::Semi);
                            judge_session("long-line", &empty, &[vec![Stmt::Print(l.clone()), probe()]], &[], ctx);
                            let p = Prog { lines: vec![Line { num: 10, stmts: vec![Stmt::Print(l)] }, Line { num: 20, stmts: vec![probe()] }] };
                            judge_session("long-line", &p, &[vec![Stmt::Raw("RUN".into())]], &[], ctx);
                        }
                    }
                }
            }
            _ => {
                // column carried across program lines and loops
                for (ai, a) in small.iter().chain(l2.iter()).enumerate() {
                    if !mine(ai) {
                        continue;
                    }
                    let p = Prog {
                        lines: vec![
                            Line { num: 10, stmts: vec![Stmt::For("I".into(), int(1), int(3), None), Stmt::Print(a.clone())] },
                            Line { num: 20, stmts: vec![Stmt::Next(vec![])] },
                            Line { num: 30, stmts: vec![probe()] },
                        ],
                    };
                    judge_session("in-a-loop", &p, &[vec![Stmt::Raw("RUN".into())]], &[], ctx);
                }
            }
        }
        ctx.sample();
    }
}

// ------------------------------------------------------------------ (b) number formatting

fn judge_number(v: &V, describe: &dyn Fn() -> String, ctx: &mut Ctx) {
    match ctx.begin_fast() {
        Step::Skip => return,
        Step::Describe => {
            ctx.described = Some(Value::String(describe()));
            return;
        }
        Step::Run => {}
    }
    let val = match v {
        V::Int(n) => Val::Integer(*n),
        V::Sng(n) => Val::Single(*n),
        V::Dbl(n) => Val::Double(*n),
        V::Str(_) => return,
    };
    let r = guard(|| format!("{}", val));
    match r {
        Err(p) => ctx.violation_case("number-format/panic", p, Value::String(describe())),
        Ok(text) => {
            if let Err(why) = check_number_text(&text, v) {
                let class = if why.contains("reads back") {
                    "does-not-read-back"
                } else if why.contains("significant digits") {
                    "not-the-shortest"
                } else {
                    "malformed"
                };
                ctx.violation_case(&format!("number-format/{}", class), why, Value::String(describe()));
            }
            // the notation does not depend on the sign: -x is written like x with a minus in front
            let neg = match v {
                V::Sng(n) if *n != 0.0 && n.is_finite() => Some(Val::Single(-*n)),
                V::Dbl(n) if *n != 0.0 && n.is_finite() => Some(Val::Double(-*n)),
                _ => None,
            };
            if let Some(nv) = neg {
                if let Ok(t2) = guard(|| format!("{}", nv)) {
                    let strip = |t: &str| t.trim_start_matches([' ', '-']).to_string();
                    if strip(&text) != strip(&t2) {
                        ctx.violation_case("number-format/notation-depends-on-the-sign", format!("{:?} but its negation {:?}", text, t2), Value::String(describe()));
                    }
                }
            }
        }
    }
}

struct Ints;

impl Sweep for Ints {
    fn name(&self) -> String {
        "format-all-integers".into()
    }
    fn shards(&self) -> usize {
        16
    }
    fn run_shard(&self, shard: usize, ctx: &mut Ctx) {
        for k in 0..4096u32 {
            let n = ((shard as u32) << 12 | k) as u16 as i16;
            judge_number(&V::Int(n), &|| format!("PRINT {}%", n), ctx);
        }
        ctx.nontrivial(hash64(&shard));
        if shard == 0 {
            ctx.acc.samples.push(Value::String("PRINT -32768% .. 32767%".into()));
        }
    }
}

/// f32: every exponent x `per_exp` mantissa patterns (all 2^23 when `all`)
struct Singles {
    all: bool,
}

fn mantissas() -> Vec<u32> {
    let mut v: Vec<u32> = vec![0, 1, 2, 3, 0x7FFFFF, 0x7FFFFE, 0x400000, 0x400001, 0x3FFFFF, 0x555555, 0x2AAAAA, 0x123456, 0x654321, 0x19999A, 0x199999, 0x4CCCCD];
    for i in 0..23 {
        v.push(1 << i);
        v.push((1 << i) - 1);
        v.push(0x7FFFFF ^ (1 << i));
    }
    v.sort();
    v.dedup();
    v
}

impl Sweep for Singles {
    fn name(&self) -> String {
        if self.all { "format-all-f32".into() } else { "format-f32-every-exponent".into() }
    }
    fn shards(&self) -> usize {
        if self.all { 4096 } else { 512 }
    }
    fn run_shard(&self, shard: usize, ctx: &mut Ctx) {
        if self.all {
            let base = (shard as u32) << 20;
            for lo in 0..(1u32 << 20) {
                let x = f32::from_bits(base | lo);
                if x.is_nan() {
                    continue;
                }
                judge_number(&V::Sng(x), &|| format!("Single {:?} bits {:#x}", x, x.to_bits()), ctx);
            }
        } else {
            // sign (1 bit) x exponent (8 bits)
            let hi = (shard as u32) << 23;
            for m in mantissas() {
                let x = f32::from_bits(hi | m);
                if x.is_nan() {
                    continue;
                }
                judge_number(&V::Sng(x), &|| format!("Single {:?} bits {:#x}", x, x.to_bits()), ctx);
            }
            // powers of ten and their neighbours in this binade
            ctx.nontrivial(hash64(&shard));
        }
        if shard == 1 {
            ctx.acc.samples.push(Value::String(format!("PRINT of Single bit patterns {:#x}..", (shard as u32) << 20)));
        }
    }
}

struct Doubles;

impl Sweep for Doubles {
    fn name(&self) -> String {
        "format-f64-structured".into()
    }
    fn shards(&self) -> usize {
        2048 / 8
    }
    fn run_shard(&self, shard: usize, ctx: &mut Ctx) {
        // every binary exponent x 256 boundary mantissas, both signs
        let mut ms: Vec<u64> = vec![0, 1, 2, 0xFFFFFFFFFFFFF, 0xFFFFFFFFFFFFE, 0x8000000000000, 0x8000000000001, 0x7FFFFFFFFFFFF, 0x5555555555555, 0x999999999999A, 0x3333333333333];
        for i in 0..52 {
            ms.push(1 << i);
            ms.push((1 << i) - 1);
            ms.push(0xFFFFFFFFFFFFF ^ (1 << i));
            ms.push((1u64 << i) | 1);
        }
        ms.sort();
        ms.dedup();
        for e in 0..8u64 {
            let exp = (shard as u64) * 8 + e;
            if exp == 0x7FF {
                continue;
            }
            for &m in &ms {
                for sign in [0u64, 1] {
                    let x = f64::from_bits((sign << 63) | (exp << 52) | m);
                    judge_number(&V::Dbl(x), &|| format!("Double {:?} bits {:#x}", x, x.to_bits()), ctx);
                }
            }
        }
        // +-64 ulp around every power of ten (shard 0 only)
        if shard == 0 {
            for p in -320..=308 {
                let t: f64 = format!("1e{}", p).parse().unwrap();
                if t == 0.0 || !t.is_finite() {
                    continue;
                }
                for d in -64i64..=64 {
                    let x = f64::from_bits((t.to_bits() as i64 + d) as u64);
                    judge_number(&V::Dbl(x), &|| format!("Double {:?}", x), ctx);
                }
                let s = t as f32;
                if s != 0.0 && s.is_finite() {
                    for d in -64i32..=64 {
                        let x = f32::from_bits((s.to_bits() as i32 + d) as u32);
                        judge_number(&V::Sng(x), &|| format!("Single {:?}", x), ctx);
                    }
                }
            }
            ctx.acc.samples.push(Value::String("PRINT of Doubles within 64 ulp of every power of ten".into()));
        }
        ctx.nontrivial(hash64(&shard));
    }
}

impl Check for C11 {
    fn id(&self) -> &'static str {
        "C11"
    }
    fn sweeps(&self, tier: Tier) -> Vec<Box<dyn Sweep>> {
        let mut v: Vec<Box<dyn Sweep>> = vec![
            Box::new(Layout { thorough: tier == Tier::Thorough }),
            Box::new(Ints),
            Box::new(Singles { all: false }),
            Box::new(Doubles),
        ];
        if tier == Tier::Thorough {
            v.push(Box::new(Singles { all: true }));
        }
        v
    }
    fn meta(&self, tier: Tier) -> Meta {
        Meta {
            bound: format!(
                "(a) print lists over 20 items (\"\", A, 13- and 14-character strings, é, 7, -3, 1.5, -2.5, 0.25#, 100000, TAB(0|1|5|14|15|28), SPC(0|3), POS(0)) with separators ; , juxtaposition and trailing none ; , : every list of <=3 items as one statement; every pair (<=2 items, <=1 item) and every triple of <=1-item statements{}; each followed by a probe PRINT POS(0);\"x\",\"y\"TAB(40)\"z\"; every <=2-item list followed by INPUT (good and bad-then-good reply), a runtime error, CLS, LIST (of a program and of nothing), STOP, with TRON trace brackets across three lines, and inside a FOR loop; (b) all 65536 Integers, every sign x exponent of f32 with 81 mantissa patterns{}, every binary exponent of f64 with 219 mantissa patterns and both signs, +-64 ulp around every power of ten in f64 and f32",
                if tier == Tier::Thorough { " (pairs also across two entered lines, all third statements)" } else { " (every third of the third statements)" },
                if tier == Tier::Thorough { " and ALL 2^32 f32 bit patterns" } else { "" }
            ),
            rule: "a case is one session / one formatted value; distinct_nontrivial = distinct expected transcripts (layout) and shards (formatting)".into(),
            states_note: "transitions = sessions compared with the reference cursor model plus values formatted".into(),
            assumptions: vec![
                "cursor column = characters since the last newline; reset by an INPUT reply, by every listed line and by CLS".into(),
                "a printed number is judged by: leading blank or minus, reads back to the identical value in its type, minimal count of significant digits; positional vs E notation is not fixed by the manual".into(),
                "NaN is not formatted (no BASIC expression of the manual produces it deliberately)".into(),
            ],
        }
    }
}
