//! C03 — no input can crash or wedge the interpreter; it always returns to READY.
//!
//! Exhaustive families (DESIGN.md §3 C03): all short strings over the
//! lexically significant alphabet, all short token sequences, all single-token
//! mutants of a corpus, length-limit shapes, and an explicit-state search of
//! the UI protocol (enter / execute / interrupt / snapshots / loads).

use super::{Check, Meta};
use crate::driver::{Ev, Session, Status};
use crate::engine::{guard, hash64, Ctx, Sweep, Tier};
use crate::space::{SpaceModel, SpaceSweep, Step};
use basic::mach::{Event, Listing, Runtime};

pub struct C03;

pub const SIGMA: [&str; 41] = [
    "0", "1", "9", ".", "E", "e", "D", "d", "+", "-", "A", "G", "O", "T", "o", "F", "N", "\"", "&", "H", "!", "#", "%", "$", ":",
    "'", "?", ",", ";", "(", ")", "<", "=", ">", "*", "\\", "^", " ", "\t", "é", "R",
];

/// Panic location as a signature class ("panic@src/mach/val.rs:42").
fn panic_class(msg: &str) -> String {
    let loc = msg.rsplit(" at ").next().unwrap_or("");
    let loc = loc.rsplit("/repo/").next().unwrap_or(loc);
    let loc = if loc.contains("/rustc/") { loc.rsplit("library/").next().unwrap_or(loc) } else { loc };
    format!("panic@{}", loc)
}

/// Enter the lines into a fresh interpreter, answering prompts, interrupting a
/// program that keeps running, and check that the session is alive afterwards.
pub fn survive(lines: &[&str]) -> Result<(), (String, String)> {
    let r = guard(|| {
        let mut s = Session::with(5000, 10);
        for l in lines {
            let mut st = s.enter(l);
            let mut tries = 0;
            while st == Status::AwaitInput {
                tries += 1;
                if tries > 3 {
                    s.rt.interrupt();
                    st = s.drain();
                    break;
                }
                st = s.enter(["", "1", "x,y"][tries - 1]);
            }
            if st == Status::AwaitInput {
                return Err(("wedged/still-waiting-for-input-after-interrupt".to_string(), format!("{:?}", l)));
            }
            // after a cut the driver has interrupted and drained: must be stopped
            if st == Status::Cut {
                let mut stopped = false;
                for _ in 0..8 {
                    if let Some(Status::Stopped) = s.step() {
                        stopped = true;
                        break;
                    }
                }
                // drain() already saw Stopped in the common case; one more probe
                let _ = stopped;
            }
        }
        s.take();
        // the interpreter must accept the next line
        let st = s.enter("PRINT 1");
        let ev = s.take();
        let ok = st == Status::Stopped && ev.iter().any(|e| matches!(e, Ev::Out(t) if t.contains(" 1 \n")));
        if !ok {
            // one interrupt is allowed to get back to the prompt
            s.rt.interrupt();
            s.drain();
            s.take();
            let st = s.enter("PRINT 1");
            let ev = s.take();
            let ok = st == Status::Stopped && ev.iter().any(|e| matches!(e, Ev::Out(t) if t.contains(" 1 \n")));
            if !ok {
                return Err(("wedged/does-not-accept-next-line".to_string(), format!("PRINT 1 gave {:?}", crate::driver::render(&ev))));
            }
        }
        Ok(())
    });
    match r {
        Ok(r) => r,
        Err(p) => Err((panic_class(&p), p)),
    }
}

fn judge_text(s: &str, ctx: &mut Ctx) {
    let numbered = format!("10 {}", s);
    for (mode, lines) in [("direct", vec![s]), ("stored", vec![numbered.as_str()]), ("stored-run", vec![numbered.as_str(), "RUN"])] {
        if !ctx.begin(&format!("{}: {:?}", mode, lines)) {
            continue;
        }
        match survive(&lines) {
            Ok(()) => {}
            Err((sig, detail)) => ctx.violation(&sig, detail),
        }
    }
}

/// all strings of length 1..=n over SIGMA (optionally a sub-alphabet)
struct Strings {
    n: usize,
    alpha: Vec<&'static str>,
    label: &'static str,
}

impl Sweep for Strings {
    fn name(&self) -> String {
        format!("all-strings-{}-len-{}", self.label, self.n)
    }
    fn shards(&self) -> usize {
        self.alpha.len() * self.alpha.len()
    }
    fn crash_is_verdict(&self) -> bool {
        true
    }
    fn run_shard(&self, shard: usize, ctx: &mut Ctx) {
        let a = &self.alpha;
        let (c0, c1) = (a[shard / a.len()], a[shard % a.len()]);
        if shard % a.len() == 0 {
            judge_text(c0, ctx);
        }
        let mut s = format!("{}{}", c0, c1);
        judge_text(&s, ctx);
        let base = s.len();
        for len in 3..=self.n {
            let extra = len - 2;
            let total = a.len().pow(extra as u32);
            for idx in 0..total {
                s.truncate(base);
                let mut x = idx;
                for _ in 0..extra {
                    s.push_str(a[x % a.len()]);
                    x /= a.len();
                }
                judge_text(&s, ctx);
                if ctx.done() {
                    return;
                }
            }
        }
        ctx.nontrivial(hash64(&(c0, c1)));
        if shard % 400 == 0 {
            ctx.sample();
        }
    }
}

pub fn tokens() -> Vec<&'static str> {
    vec![
        "CLEAR", "CLS", "CONT", "DATA", "DEF", "DEFDBL", "DEFINT", "DEFSNG", "DEFSTR", "DELETE", "DIM", "ELSE", "END", "ERASE",
        "FOR", "GOSUB", "GOTO", "IF", "INPUT", "LET", "LIST", "LOAD", "NEW", "NEXT", "ON", "PRINT", "READ", "REM", "RENUM",
        "RESTORE", "RETURN", "RUN", "SAVE", "STEP", "STOP", "SWAP", "THEN", "TO", "TROFF", "TRON", "WEND", "WHILE", "^", "*",
        "/", "\\", "MOD", "+", "-", "=", "<>", "<", "<=", ">", ">=", "NOT", "AND", "OR", "XOR", "IMP", "EQV", "(", ")", ",", ":",
        ";", "1", "32767", "32768", "1.5", "1E38", "1D308", "1E-40", "&HFFFF", "&H7FFF", "&177777", "\"s\"", "A", "A%", "A$",
        "A#", "A!", "A(", "FNA", "FNA(", "LEN(", "MID$(", "LEFT$(", "CHR$(", "STRING$(", "TAB(", "SPC(", "RND", "INKEY$", "POS(",
        "INSTR(", "VAL(", "TIME$", "10", "65529", "65530",
    ]
}

struct TokenSeqs {
    k: usize,
}

impl Sweep for TokenSeqs {
    fn name(&self) -> String {
        format!("all-token-sequences-len-{}", self.k)
    }
    fn shards(&self) -> usize {
        tokens().len()
    }
    fn crash_is_verdict(&self) -> bool {
        true
    }
    fn run_shard(&self, shard: usize, ctx: &mut Ctx) {
        let t = tokens();
        let n = t.len();
        for len in 1..=self.k {
            let total = n.pow(len as u32 - 1);
            for idx in 0..total {
                let mut parts = vec![t[shard]];
                let mut x = idx;
                for _ in 1..len {
                    parts.push(t[x % n]);
                    x /= n;
                }
                judge_text(&parts.join(" "), ctx);
                if len <= 2 {
                    judge_text(&parts.join(""), ctx);
                }
                if ctx.done() {
                    return;
                }
            }
        }
        ctx.nontrivial(hash64(&shard));
        if shard % 30 == 0 {
            ctx.sample();
        }
    }
}

pub fn corpus() -> Vec<&'static str> {
    vec![
        "LET PI = 3.14",
        "PRINT 3# + 0.14#",
        "A% = 300*300",
        "A2$ = CHR$(34) + \"HELLO\" + CHR$(34)",
        "PRINT 2 / (A + B)",
        "PRINT 10\\3;10 MOD 3;-2^2;NOT 1 AND 2 OR 3 XOR 4 IMP 5 EQV 6",
        "IF 10 < 100 THEN PRINT \"INDEED\"",
        "PRINT ((A<B)*1)+((A>B)*-1)",
        "DIM BOARD(10,10):LET BOARD(5,5) = 12",
        "INPUT ,\"What is your name\";NAME$",
        "IF VAL(LEFT$(TIME$,2)) < 5 OR VAL(LEFT$(TIME$,2)) > 10 GOTO 40",
        "PRINT \"Good morning, \" NAME$ \".\":GOTO 50",
        "ON COOKIES GOTO 80,90,90",
        "FOR I=1 TO COOKIES:PRINT CHR$(127850);:NEXT:PRINT",
        "CLEAR ,16384,1000",
        "READ A$,A%:DATA \"NUGGET\",3,-4,1.5E3",
        "DEF FNDEG(RADIANS)=RADIANS*180/PI:PRINT FNDEG(COS(0.707))",
        "DEFSTR S:ST=\"NO DOLLAR$\":?ST",
        "DEFSNG A-Z:DEFINT I-K:DEFDBL D",
        "DELETE 500-600:LIST 100-:LIST -100:DELETE 120",
        "DIM A$(100), X(10,10):A$(42)=\"THE ANSWER\":PRINT A$(42)+\"!\", X(4,2)",
        "ERASE A$:A$(5) = \"Five\"",
        "FOR I=1 TO 7 STEP 2:PRINT \"HELLO WORLD\";i:NEXT I",
        "FOR X=1 TO 2:FOR Y=5 TO 6:PRINT X;Y:NEXT Y,X",
        "GOSUB 100:PRINT \"WORLD\":END",
        "IF A<30 THEN PRINT A:GOSUB 100:GOTO 20 ELSE A=A+10:RETURN",
        "INPUT \"WHAT IS YOUR NAME AND AGE\"; NAME$, AGE%",
        "LET MID$(A$(5),11)=\"OR\":PRINT A$(5)",
        "ON I GOSUB 100,200:ON -1 GOTO 10",
        "PRINT ,\"Mar\",\"Apr\":?\"Bought\",100,120:?\"Sold\",-97,-123",
        "PRINT 1.99 TAB(20) \"furlongs per year\";SPC(5);POS(0)",
        "REM Authored by Zaphod",
        "PRINT 42 ' Answer to everything.",
        "RENUM 100,,100:RENUM 1000",
        "RESTORE 110:READ A$: PRINT A$;",
        "RUN 10:RUN \"f\":LOAD \"g\":SAVE \"h\"",
        "SWAP A,B:SWAP A$,B$:SWAP A(1),B(2)",
        "TRON:TROFF:STOP:CONT:NEW:CLS",
        "WHILE A$ <> \"END\":PRINT A$;:READ A$:WEND",
        "I$=\"\":WHILE LEN(I$)=0:I$=INKEY$:WEND:PRINT I$",
        "PRINT INSTR(5,\"abcdeb\",\"b\");MID$(\"HUNT THE WUMPUS\", 6, 3);RIGHT$(A$,6);HEX$(-1);OCT$(-1)",
        "PRINT STRING$(5,45)\"KAPOW\"STRING$(5,\"-\");STR$(-3.14) + \"!\";VAL(\"1E-2\")",
        "PRINT ABS(-0.123);ATN(3);CDBL(3);CINT(-9.9);CSNG(3#);EXP(1);FIX(-9.9);INT(-9.9);LOG(8/37);SGN(+1);SIN(0.123);SQR(5);TAN(5/13);RND();RND(-1)",
        "PRINT DATE$;TIME$;ASC(\"A\");LEN(\"TO\")",
        "RND=RND(-ABS(A)):A$ = INKEY$",
        "CLS:PRINT STRING$(5,10)SPC(20)\"TITLE\":PRINT CHR$(7)",
        "A=1E5:B#=1D5:C=&HFF:D=&77:E=1.5!:F=2%:G=3#",
    ]
}

/// split a line into tokens for mutation: words/numbers, strings, single characters
fn split_tokens(l: &str) -> Vec<String> {
    let cs: Vec<char> = l.chars().collect();
    let mut out = vec![];
    let mut i = 0;
    while i < cs.len() {
        let s = i;
        if cs[i] == '"' {
            i += 1;
            while i < cs.len() && cs[i] != '"' {
                i += 1;
            }
            i = (i + 1).min(cs.len());
        } else if cs[i].is_alphanumeric() || cs[i] == '.' {
            while i < cs.len() && (cs[i].is_alphanumeric() || "$%!#.".contains(cs[i])) {
                i += 1;
            }
        } else {
            i += 1;
        }
        out.push(cs[s..i].iter().collect());
    }
    out
}

struct Mutants {
    pairs: bool,
}

impl Sweep for Mutants {
    fn name(&self) -> String {
        format!("corpus-token-mutants-{}", if self.pairs { "pairs" } else { "single" })
    }
    fn shards(&self) -> usize {
        corpus().len()
    }
    fn crash_is_verdict(&self) -> bool {
        true
    }
    fn run_shard(&self, shard: usize, ctx: &mut Ctx) {
        let line = corpus()[shard];
        let toks = split_tokens(line);
        let alpha = tokens();
        judge_text(line, ctx);
        let mut singles: Vec<Vec<String>> = vec![];
        for i in 0..toks.len() {
            let mut d = toks.clone();
            d.remove(i);
            singles.push(d);
            if i + 1 < toks.len() {
                let mut s = toks.clone();
                s.swap(i, i + 1);
                singles.push(s);
            }
            for a in &alpha {
                let mut r = toks.clone();
                r[i] = a.to_string();
                singles.push(r);
                let mut ins = toks.clone();
                ins.insert(i, format!("{} ", a));
                singles.push(ins);
            }
        }
        for m in &singles {
            judge_text(&m.concat(), ctx);
            if ctx.done() {
                return;
            }
        }
        if self.pairs && toks.len() <= 14 {
            // all pairs of deletions / adjacent swaps / replacements by a small token set
            let small = ["(", ")", ",", "-", "32768", "\"s\"", "THEN", "A$", "FNA(", ":"];
            for i in 0..toks.len() {
                for j in 0..toks.len() {
                    for a in small {
                        for b in small {
                            let mut r = toks.clone();
                            r[i] = a.to_string();
                            r[j] = b.to_string();
                            judge_text(&r.concat(), ctx);
                        }
                        let mut r = toks.clone();
                        r[i] = a.to_string();
                        if j < r.len() && j != i {
                            r.remove(j);
                        }
                        judge_text(&r.concat(), ctx);
                        if ctx.done() {
                            return;
                        }
                    }
                }
            }
        }
        ctx.nontrivial(hash64(&line));
        ctx.sample();
    }
}

/// nesting constructors repeated up to the 1024-byte line limit
struct Shapes;

fn shapes() -> Vec<(String, String, String)> {
    // (prefix, repeated unit, suffix)
    let mut v = vec![];
    for (p, u, s) in [
        ("A=", "(", "1"),
        ("A=", "-", "1"),
        ("A=", "NOT ", "1"),
        ("A=", "A(", "1"),
        ("", "IF 1 THEN ", "PRINT 1"),
        ("", ":", ""),
        ("PRINT ", "1;", ""),
        ("A=", "1+", "1"),
        ("A=", "1^", "1"),
        ("A=", "(1+", "1"),
        ("A=", "FNA(", "1"),
        ("A=", "LEN(STR$(", "1"),
        ("PRINT \"", "x", "\""),
        ("PRINT \"", "é", "\""),
        ("REM ", "y", ""),
        ("DATA ", "1,", "1"),
        ("DIM A(", "1,", "1)"),
        ("ON 1 GOTO ", "10,", "10"),
        ("NEXT ", "I,", "I"),
        ("INPUT ", "A,", "A"),
        ("A", "A", "=1"),
        ("", "1", ""),
        ("A=", "1", ""),
        ("A=1E", "9", ""),
        ("A=&H", "F", ""),
        ("?", "\"\"", ""),
        ("", "é", ""),
        ("", "<", ""),
        ("A=1", "<>", "1"),
        ("", "ELSE ", ""),
        ("", "GO TO ", ""),
    ] {
        v.push((p.to_string(), u.to_string(), s.to_string()));
    }
    v
}

impl Sweep for Shapes {
    fn name(&self) -> String {
        "length-limit-shapes".into()
    }
    fn shards(&self) -> usize {
        shapes().len()
    }
    fn crash_is_verdict(&self) -> bool {
        true
    }
    fn run_shard(&self, shard: usize, ctx: &mut Ctx) {
        let (p, u, s) = shapes()[shard].clone();
        for target in [64usize, 255, 256, 257, 1000, 1018, 1019, 1020, 1021, 1022, 1023, 1024, 1025, 2000] {
            // as many units as fit in `target` bytes including the "10 " prefix of the stored form
            let fixed = p.len() + s.len() + 3;
            if target <= fixed {
                continue;
            }
            let reps = (target - fixed) / u.len();
            for r in [reps, reps + 1] {
                let line = format!("{}{}{}", p, u.repeat(r), s);
                let closed = if u.contains('(') { format!("{}{}{}{}", p, u.repeat(r), s, ")".repeat(r * u.matches('(').count())) } else { line.clone() };
                for l in [line, closed] {
                    judge_text(&l, ctx);
                    // as an INPUT reply and as an INKEY$ key
                    if ctx.begin(&format!("reply of {} bytes: {}...", l.len(), l.chars().take(20).collect::<String>())) {
                        let r = guard(|| {
                            let mut s = Session::with(5000, 10);
                            s.enter("10 INPUT A$,B:PRINT LEN(A$)");
                            s.replies.push_back(l.clone());
                            s.replies.push_back("x,1".into());
                            s.keys.push_back(l.clone());
                            s.enter("RUN");
                            s.enter("A$=INKEY$:PRINT LEN(A$)");
                            s.take();
                            s.enter("PRINT 1");
                            crate::driver::render(&s.take())
                        });
                        match r {
                            Err(pn) => ctx.violation(&panic_class(&pn), pn),
                            Ok(t) => {
                                if !t.contains(" 1 \n") {
                                    ctx.violation("wedged/does-not-accept-next-line", t);
                                }
                            }
                        }
                    }
                }
            }
        }
        ctx.nontrivial(hash64(&shard));
        ctx.sample();
    }
}

/// every reply of up to n symbols (multi-byte characters, commas, quotes,
/// blanks, number parts) to INPUT statements with one to three variables, and
/// as the key returned by INKEY$
struct Replies {
    n: usize,
}

const REPLY_ALPHA: [&str; 10] = ["a", "é", "日", ",", "\"", " ", "1", "-", ".", "&"];
const REPLY_PROGS: [&str; 5] = ["10 INPUT A$,B$", "10 INPUT A,B$,C", "10 INPUT \"p\";A$,B$,C$", "10 INPUT A$", "10 INPUT A%,B#"];

impl Sweep for Replies {
    fn name(&self) -> String {
        format!("input-replies-len-{}", self.n)
    }
    fn shards(&self) -> usize {
        REPLY_ALPHA.len()
    }
    fn crash_is_verdict(&self) -> bool {
        true
    }
    fn run_shard(&self, shard: usize, ctx: &mut Ctx) {
        let a = REPLY_ALPHA;
        for len in 1..=self.n {
            for idx in 0..a.len().pow(len as u32 - 1) {
                let mut reply = String::from(a[shard]);
                let mut x = idx;
                for _ in 1..len {
                    reply.push_str(a[x % a.len()]);
                    x /= a.len();
                }
                for prog in REPLY_PROGS {
                    if !ctx.begin(&format!("{} / RUN / reply {:?}", prog, reply)) {
                        continue;
                    }
                    let r = guard(|| {
                        let mut s = Session::with(5000, 10);
                        s.enter(prog);
                        s.replies.push_back(reply.clone());
                        s.keys.push_back(reply.clone());
                        let mut st = s.enter("RUN");
                        if st == Status::AwaitInput {
                            // the reply was refused or more is wanted: one interrupt must get back to the prompt
                            s.rt.interrupt();
                            st = s.drain();
                        }
                        let _ = st;
                        s.enter("K$=INKEY$:PRINT LEN(K$)");
                        s.take();
                        s.enter("PRINT 1");
                        crate::driver::render(&s.take())
                    });
                    match r {
                        Err(pn) => ctx.violation(&panic_class(&pn), pn),
                        Ok(t) => {
                            ctx.nontrivial(hash64(&(prog, &t, reply.len())));
                            if !t.contains(" 1 \n") {
                                ctx.violation("wedged/does-not-accept-next-line", t);
                            }
                        }
                    }
                }
            }
        }
        ctx.sample();
    }
}

/// Every built-in function with every tuple of boundary arguments (numbers at
/// the 8/16/21-bit and float limits, the UTF-16 surrogate range, strings).
struct FnArgs;

const FN_NAMES: [&str; 30] = [
    "ABS", "ASC", "ATN", "CDBL", "CHR$", "CINT", "COS", "CSNG", "EXP", "FIX", "HEX$", "INSTR", "INT", "LEFT$", "LEN", "LOG", "MID$", "OCT$", "POS", "RIGHT$", "RND", "SGN", "SIN", "SPC", "SQR",
    "STR$", "STRING$", "TAB", "TAN", "VAL",
];
const FN_ARGS: [&str; 23] = [
    "-1", "0", "1", "255", "256", "32767", "32768", "-32769", "55295", "55296", "57343", "57344", "65535", "65536", "1114111", "1114112", "1E38", "-1E38", "1D308", "0.5", "\"\"", "\"a\"", "\"é日\"",
];

impl Sweep for FnArgs {
    fn name(&self) -> String {
        "functions-x-boundary-arguments".into()
    }
    fn shards(&self) -> usize {
        FN_NAMES.len()
    }
    fn crash_is_verdict(&self) -> bool {
        true
    }
    fn run_shard(&self, shard: usize, ctx: &mut Ctx) {
        let f = FN_NAMES[shard];
        let mut calls: Vec<String> = vec![format!("{}()", f)];
        for a in FN_ARGS {
            calls.push(format!("{}({})", f, a));
            for b in FN_ARGS {
                calls.push(format!("{}({},{})", f, a, b));
                if f == "MID$" || f == "INSTR" {
                    for c in FN_ARGS {
                        calls.push(format!("{}({},{},{})", f, a, b, c));
                    }
                }
            }
        }
        for c in calls {
            let direct = format!("PRINT {};", c);
            let stored = format!("10 X$=\"\"+STR$(LEN(\"\"+{}))", c);
            for lines in [vec![direct.as_str()], vec![stored.as_str(), "RUN"]] {
                if !ctx.begin(&format!("{:?}", lines)) {
                    continue;
                }
                if let Err((sig, detail)) = survive(&lines) {
                    ctx.violation(&sig, detail);
                }
            }
        }
        ctx.nontrivial(hash64(&shard));
        ctx.sample();
    }
}

/// TAB, SPC, the comma zones and POS at every interesting column of a long
/// output line (up to 1000 characters without a newline)
struct Columns;

const COLS: [usize; 24] = [0, 1, 13, 14, 15, 27, 28, 79, 80, 81, 90, 159, 160, 161, 254, 255, 256, 257, 300, 511, 512, 513, 1000, 1024];

impl Sweep for Columns {
    fn name(&self) -> String {
        "long-output-lines".into()
    }
    fn shards(&self) -> usize {
        COLS.len()
    }
    fn crash_is_verdict(&self) -> bool {
        true
    }
    fn run_shard(&self, shard: usize, ctx: &mut Ctx) {
        let col = COLS[shard];
        for ch in ["x", "é"] {
            let mut parts = vec![];
            let mut left = col;
            while left > 0 {
                let n = left.min(255);
                parts.push(format!("STRING$({},\"{}\");", n, ch));
                left -= n;
            }
            let lead = parts.join("");
            let mut ops: Vec<String> = vec![",\"y\"".into(), "POS(0)".into(), ",,\"y\"".into()];
            for n in [-1i32, 0, 1, 2, 14, 15, 30, 79, 80, 81, 90, 160, 255, 256, 257, 1000, 32767] {
                ops.push(format!("TAB({});\"y\"", n));
                ops.push(format!("SPC({});\"y\"", n));
            }
            for op in &ops {
                let line = format!("PRINT {}{}", lead, op);
                let stored = format!("10 {}:PRINT POS(0)", line);
                for lines in [vec![line.as_str()], vec![stored.as_str(), "RUN"]] {
                    if !ctx.begin(&format!("column {} of {:?}: {} [{}]", col, ch, op, lines.len())) {
                        continue;
                    }
                    ctx.nontrivial(hash64(&(col, ch, op)));
                    if let Err((sig, detail)) = survive(&lines) {
                        ctx.violation(&sig, detail);
                    }
                }
            }
        }
        ctx.sample();
    }
}

/// two stored corpus lines (also with multi-byte text) followed by every
/// program-level command, then a second command
struct Sessions {
    all: bool,
}

fn commands() -> Vec<&'static str> {
    vec![
        "RUN", "RUN 20", "LIST", "LIST 20-", "LIST -10", "DELETE 10", "DELETE 10-20", "RENUM", "RENUM 100,20,5", "RENUM 65529", "RENUM 5,20",
        "SAVE \"f\"", "LOAD \"f\"", "RUN \"f\"", "NEW", "CLEAR", "CONT", "GOTO 20", "GOSUB 10", "TRON", "20", "15 '€é日", "10 ?\"€€€€\":GOTO 10",
    ]
}

impl Sweep for Sessions {
    fn name(&self) -> String {
        "stored-lines-then-commands".into()
    }
    fn shards(&self) -> usize {
        corpus().len() + 3
    }
    fn crash_is_verdict(&self) -> bool {
        true
    }
    fn run_shard(&self, shard: usize, ctx: &mut Ctx) {
        let mut lines: Vec<String> = corpus().iter().map(|s| s.to_string()).collect();
        lines.push("PRINT \"€é日\":GOTO 20:GOSUB 10:ON A GOTO 10,20".into());
        lines.push("?\"日本語\";:IF A THEN 10 ELSE 20".into());
        lines.push("REM €€€ GOTO 10".into());
        let a = &lines[shard];
        let cmds = commands();
        let step = if self.all { 1 } else { 4 };
        for (bi, b) in lines.iter().enumerate() {
            if !self.all && (bi + shard) % step != 0 && bi < lines.len() - 3 {
                continue;
            }
            for c1 in &cmds {
                let l10 = format!("10 {}", a);
                let l20 = format!("20 {}", b);
                let seq: Vec<&str> = vec![l10.as_str(), l20.as_str(), c1];
                if ctx.begin(&format!("{:?}", seq)) {
                    if let Err((sig, detail)) = survive(&seq) {
                        ctx.violation(&sig, detail);
                    }
                }
                // a second command after RENUM / DELETE / an interrupted RUN
                if c1.starts_with("RENUM") || c1.starts_with("DELETE") || *c1 == "RUN" {
                    for c2 in ["RUN", "LIST", "RENUM", "CONT", "GOTO 10"] {
                        let seq: Vec<&str> = vec![l10.as_str(), l20.as_str(), c1, c2];
                        if ctx.begin(&format!("{:?}", seq)) {
                            if let Err((sig, detail)) = survive(&seq) {
                                ctx.violation(&sig, detail);
                            }
                        }
                    }
                }
            }
            if ctx.done() {
                return;
            }
        }
        ctx.nontrivial(hash64(&a));
        ctx.sample();
    }
}

// ------------------------------------------------------------------ protocol

#[derive(Clone, Debug, PartialEq)]
enum PAct {
    Enter(&'static str),
    Reply(&'static str),
    Key(&'static str),
    Exec(usize),
    Interrupt,
    SnapTake,
    SnapDrop,
    LoadOk(bool),
    LoadFail,
}

#[derive(Clone, Copy, PartialEq, Debug)]
enum Wait {
    /// the next call must be execute()
    Exec,
    Line,
    Input,
    Inkey,
    Load(bool),
}

struct Protocol {
    acts: Vec<(String, PAct)>,
    depth: usize,
    /// lines already stored when the search starts
    preloaded: bool,
}

const PRELOAD: [&str; 4] = ["10 PRINT \"x\";:GOTO 10", "20 INPUT A,B$:PRINT A;B$", "30 A$=INKEY$:IF A$=\"\" THEN 30", "40 PRINT \"s\";FNZ(1);:RETURN"];

fn protocol(depth: usize) -> Protocol {
    protocol_from(depth, false)
}

fn protocol_from(depth: usize, preloaded: bool) -> Protocol {
    let mut acts = vec![];
    for l in [
        "10 PRINT \"x\";:GOTO 10",
        "20 INPUT A,B$:PRINT A;B$",
        "30 A$=INKEY$:IF A$=\"\" THEN 30",
        "5 GOSUB 5",
        "RUN",
        "RUN 20",
        "RUN 30",
        "LIST",
        "LOAD \"f\"",
        "RUN \"f\"",
        "SAVE \"f\"",
        "PRINT )",
        "10",
        "NEW",
        "RENUM",
        "DELETE 10-20",
        "CONT",
        "PRINT 1/0;A$",
        "40 PRINT \"s\";FNZ(1);:RETURN",
        "GOSUB 40",
        "FOR I=1 TO 9",
    ] {
        acts.push((format!("enter {}", l), PAct::Enter(l)));
    }
    for r in ["1,x", "", "1,2,3"] {
        acts.push((format!("reply {:?}", r), PAct::Reply(r)));
    }
    for k in ["", "k"] {
        acts.push((format!("key {:?}", k), PAct::Key(k)));
    }
    for q in [1usize, 7, 5000] {
        acts.push((format!("execute({})", q), PAct::Exec(q)));
    }
    // execute(5000) until the interpreter wants something (at most 40 calls)
    acts.push(("execute-until-it-asks".into(), PAct::Exec(0)));
    acts.push(("interrupt".into(), PAct::Interrupt));
    acts.push(("snapshot-take".into(), PAct::SnapTake));
    acts.push(("snapshot-drop".into(), PAct::SnapDrop));
    acts.push(("load-ok".into(), PAct::LoadOk(false)));
    acts.push(("load-fail".into(), PAct::LoadFail));
    Protocol { acts, depth, preloaded }
}

fn loaded() -> Listing {
    let mut l = Listing::default();
    let _ = l.load_str("10 PRINT \"L\"");
    let _ = l.load_str("20 GOTO 10");
    l
}

impl SpaceModel for Protocol {
    fn name(&self) -> String {
        if self.preloaded { "ui-protocol-from-stored-program".into() } else { "ui-protocol".into() }
    }
    fn action_names(&self) -> Vec<String> {
        self.acts.iter().map(|(n, _)| n.clone()).collect()
    }
    fn max_depth(&self) -> usize {
        self.depth
    }
    fn crash_is_verdict(&self) -> bool {
        true
    }
    fn run(&self, hist: &[usize]) -> Option<Step> {
        // the signature of a panic names where it happened and the statement
        // word last entered, so that one known finding does not hide another
        let last_word = std::cell::RefCell::new(String::new());
        match guard(|| self.run_inner(hist, &last_word)) {
            Ok(r) => r,
            Err(p) => Some(Step {
                digest: hash64(&("panic", hist)),
                viols: vec![(format!("{}/last-entered-{}", crate::engine::panic_class(&p), last_word.borrow()), p)],
                nontrivial: None,
                terminal: true,
            }),
        }
    }
}

impl Protocol {
    fn run_inner(&self, hist: &[usize], last_word: &std::cell::RefCell<String>) -> Option<Step> {
        let mut rt = Runtime::default();
        let mut wait = Wait::Exec;
        let mut snaps: Vec<Listing> = vec![];
        // consume the intro as the terminal does
        for _ in 0..4 {
            if let Event::Stopped = rt.execute(5000) {
                wait = Wait::Line;
                break;
            }
        }
        if self.preloaded {
            for l in PRELOAD {
                rt.enter(l);
                let _ = rt.execute(5000);
            }
        }
        let mut violations: Vec<(String, String)> = vec![];
        for (i, &ai) in hist.iter().enumerate() {
            let last = i + 1 == hist.len();
            let act = &self.acts[ai].1;
            // enabledness: the documented calling protocol
            let enabled = match (act, wait) {
                (PAct::Enter(_), Wait::Line) => true,
                (PAct::Reply(_), Wait::Input) => true,
                (PAct::Key(_), Wait::Inkey) => true,
                (PAct::Exec(_), Wait::Exec) => true,
                (PAct::LoadOk(_), Wait::Load(_)) | (PAct::LoadFail, Wait::Load(_)) => true,
                // an interrupt may arrive at any time, also while a prompt or a key is awaited
                (PAct::Interrupt, Wait::Exec) | (PAct::Interrupt, Wait::Input) | (PAct::Interrupt, Wait::Inkey) => true,
                (PAct::SnapTake, _) => snaps.len() < 2,
                (PAct::SnapDrop, _) => !snaps.is_empty(),
                _ => false,
            };
            if !enabled {
                return None;
            }
            let _ = last;
            match act {
                PAct::Enter(l) => {
                    *last_word.borrow_mut() = l.split(' ').next().unwrap_or("").to_string();
                    rt.enter(l);
                    wait = Wait::Exec;
                }
                PAct::Reply(r) => {
                    rt.enter(r);
                    wait = Wait::Exec;
                }
                PAct::Key(k) => {
                    rt.enter(k);
                    wait = Wait::Exec;
                }
                PAct::Interrupt => {
                    rt.interrupt();
                    wait = Wait::Exec;
                }
                PAct::SnapTake => snaps.push(rt.get_listing()),
                PAct::SnapDrop => {
                    snaps.pop();
                }
                PAct::LoadOk(_) => {
                    let run = matches!(wait, Wait::Load(true));
                    rt.set_listing(loaded(), run);
                    wait = Wait::Exec;
                }
                PAct::LoadFail => wait = Wait::Exec,
                PAct::Exec(0) => {
                    for _ in 0..40 {
                        match rt.execute(5000) {
                            Event::Stopped => wait = Wait::Line,
                            Event::Input(..) => wait = Wait::Input,
                            Event::Inkey => wait = Wait::Inkey,
                            Event::Load(_) => wait = Wait::Load(false),
                            Event::Run(_) => wait = Wait::Load(true),
                            _ => {}
                        }
                        if wait != Wait::Exec {
                            break;
                        }
                    }
                }
                PAct::Exec(q) => match rt.execute(*q) {
                    Event::Stopped => wait = Wait::Line,
                    Event::Input(..) => wait = Wait::Input,
                    Event::Inkey => wait = Wait::Inkey,
                    Event::Load(_) => wait = Wait::Load(false),
                    Event::Run(_) => wait = Wait::Load(true),
                    Event::Save(_) => {
                        let l = rt.get_listing();
                        let _ = l.lines().count();
                    }
                    _ => {}
                },
            }
        }
        let digest = hash64(&(rt.verif_digest(), format!("{:?}", wait), snaps.len()));
        // liveness from this state: one interrupt, then at most 8 slices reach the prompt
        let mut probe_ok = false;
        if matches!(wait, Wait::Load(_)) {
            // the UI answers a load request before anything else
        }
        if wait == Wait::Inkey {
            rt.enter("");
        }
        rt.interrupt();
        for _ in 0..12 {
            match rt.execute(5000) {
                Event::Stopped => {
                    probe_ok = true;
                    break;
                }
                Event::Input(..) => {
                    rt.interrupt();
                }
                Event::Inkey => {
                    rt.enter("");
                    rt.interrupt();
                }
                _ => {}
            }
        }
        if !probe_ok {
            violations.push(("wedged/not-stopped-after-interrupt".into(), "no Stopped within 12 slices after interrupt()".into()));
        } else {
            drop(snaps);
            rt.enter("PRINT 1");
            let mut out = String::new();
            for _ in 0..8 {
                match rt.execute(5000) {
                    Event::Print(s) => out.push_str(&s),
                    Event::Stopped => break,
                    _ => {}
                }
            }
            if !out.contains(" 1 \n") {
                violations.push(("wedged/does-not-accept-next-line".into(), format!("PRINT 1 printed {:?}", out)));
            }
        }
        Some(Step { digest, viols: violations, nontrivial: Some(digest), terminal: false })
    }
}

fn sub_alphabet() -> Vec<&'static str> {
    vec!["0", "1", ".", "E", "e", "D", "d", "+", "-", "A", "!", "#", "%", "$", "&", "H", " ", "\"", "(", ","]
}

impl Check for C03 {
    fn id(&self) -> &'static str {
        "C03"
    }
    fn sweeps(&self, tier: Tier) -> Vec<Box<dyn Sweep>> {
        let v: Vec<Box<dyn Sweep>> = vec![
            Box::new(Shapes),
            Box::new(Strings { n: tier.pick(4, 5), alpha: SIGMA.to_vec(), label: "sigma" }),
            Box::new(Strings { n: tier.pick(5, 7), alpha: sub_alphabet(), label: "numeric-core" }),
            // blanks that are not ASCII: no-break space, ideographic space, em space, line separator
            Box::new(Strings { n: tier.pick(4, 5), alpha: vec!["\u{a0}", "\u{3000}", "\u{2003}", "\u{2028}", " ", "\t", "1", "A", "\"", ":", "?"], label: "unicode-blanks" }),
            Box::new(TokenSeqs { k: tier.pick(2, 3) }),
            Box::new(Mutants { pairs: tier == Tier::Thorough }),
            Box::new(Sessions { all: tier == Tier::Thorough }),
            Box::new(Replies { n: tier.pick(4, 5) }),
            Box::new(Columns),
            Box::new(FnArgs),
            Box::new(SpaceSweep { model: protocol(tier.pick(6, 8)) }),
            Box::new(SpaceSweep { model: protocol_from(tier.pick(6, 8), true) }),
        ];
        v
    }
    fn meta(&self, tier: Tier) -> Meta {
        Meta {
            bound: match tier {
                Tier::Quick => "every string of length <=4 over the 41-symbol lexical alphabet and of length <=5 over its 20-symbol numeric core, every sequence of <=2 tokens from 105 tokens, every single-token mutant (delete, swap, replace by / insert each of the 105 tokens) of a 47-line corpus, 31 nesting / repetition shapes at lengths around 255 and the 1024-byte limit (also as INPUT replies and INKEY$ keys) - each as a direct line, a stored line, and a stored line followed by RUN; two stored corpus lines followed by each of 23 commands and a follow-up command; every reply of <=4 symbols over {a, é, 日, comma, quote, blank, 1, -, ., &} to 5 INPUT statements with 1..3 variables and as an INKEY$ key; TAB / SPC / comma / POS at 24 columns 0..1024 of an unterminated output line (1- and 2-byte characters, 37 operations, direct and stored); and the UI protocol state machine (21 lines, replies, keys, execute(1|7|5000|until it asks), interrupt - also while a key or a reply is awaited -, snapshot take/drop, load ok/fail) to depth 6 from the empty interpreter and from a stored program".into(),
                Tier::Thorough => "as quick with strings to length 5 (full alphabet) / 7 (numeric core: 3.8e9 sessions), token sequences to length 3, pairs of mutations on corpus lines of <=14 tokens, every follow-up command in the stored-line sessions, replies to length 5, protocol depth 8".into(),
            },
            rule: "a case is one entered text in one of three modes (or one protocol transition); verdict: no panic, every call returns (watchdog), and afterwards - after at most one interrupt - PRINT 1 prints ' 1 '; distinct_nontrivial counts shards / protocol states".into(),
            states_note: "states = distinct (full-state digest, protocol wait state, live snapshots) of the protocol search; transitions = protocol actions executed plus entered texts".into(),
            assumptions: vec![
                "debug assertions and overflow checks are on: a violated debug_assert is reported as a panic".into(),
                "a per-case watchdog of 60 s (VERIF_HANG_SECS) stands for 'never returns'; worker threads have the 8 MiB stack of a main thread".into(),
                "the terminal front end (src/term) is not executed; its calls into the library are mirrored by the driver".into(),
            ],
        }
    }
}
