//! C10 — user functions bind parameters locally and evaluate at call time.
//! Every combination of a definition family, a calling context, an argument
//! expression and a perturbation (global changed after DEF, sentinel global
//! named like the parameter, wrong arity, call before DEF, DEF in direct mode,
//! undefined function, recursion) against the reference interpreter.

use super::both::{describe, run_both, Both};
use super::{Check, Meta};
use crate::driver::{render_codes, Session};
use crate::engine::{guard, hash64, Ctx, Sweep, Tier};
use crate::gen::*;
use crate::refmodel::value::{BinOp, V};

pub struct C10;

fn f(name: &str, args: Vec<Expr>) -> Expr {
    Expr::Fn(name.into(), args)
}
fn lv(n: &str) -> LVal {
    LVal::Var(n.into())
}
fn sng(x: f32, s: &str) -> Expr {
    Expr::Lit(V::Sng(x), s.into())
}
fn p(e: Expr) -> Stmt {
    Stmt::Print(vec![PItem::E(e), PItem::Semi])
}

/// (label, definition statements, arity of FNA, result is a string)
fn definitions() -> Vec<(&'static str, Vec<Stmt>, usize, bool)> {
    let x = || var("X");
    vec![
        ("double", vec![Stmt::Def("FNA".into(), vec!["X".into()], bin(BinOp::Mul, x(), int(2)))], 1, false),
        ("reads-global", vec![Stmt::Def("FNA".into(), vec!["X".into()], bin(BinOp::Add, x(), var("G")))], 1, false),
        ("two-params", vec![Stmt::Def("FNA".into(), vec!["X".into(), "Y".into()], bin(BinOp::Sub, x(), var("Y")))], 2, false),
        (
            "three-params",
            vec![Stmt::Def(
                "FNA".into(),
                vec!["X".into(), "Y".into(), "Z".into()],
                bin(BinOp::Add, bin(BinOp::Add, bin(BinOp::Mul, x(), int(100)), bin(BinOp::Mul, var("Y"), int(10))), var("Z")),
            )],
            3,
            false,
        ),
        ("integer-param", vec![Stmt::Def("FNA".into(), vec!["X%".into()], bin(BinOp::DivInt, var("X%"), int(2)))], 1, false),
        ("double-param", vec![Stmt::Def("FNA".into(), vec!["X#".into()], bin(BinOp::Div, var("X#"), int(4)))], 1, false),
        (
            "nested-same-parameter-name",
            vec![
                Stmt::Def("FNB".into(), vec!["X".into()], bin(BinOp::Mul, x(), int(3))),
                Stmt::Def("FNA".into(), vec!["X".into()], bin(BinOp::Add, f("FNB", vec![bin(BinOp::Add, x(), int(1))]), x())),
            ],
            1,
            false,
        ),
        (
            "nested-twice",
            vec![
                Stmt::Def("FNB".into(), vec!["Y".into()], bin(BinOp::Add, var("Y"), var("G"))),
                Stmt::Def("FNA".into(), vec!["X".into()], f("FNB", vec![f("FNB", vec![x()])])),
            ],
            1,
            false,
        ),
        (
            "three-deep",
            vec![
                Stmt::Def("FNC".into(), vec!["X".into()], bin(BinOp::Add, x(), int(1))),
                Stmt::Def("FNB".into(), vec!["X".into()], bin(BinOp::Add, f("FNC", vec![bin(BinOp::Mul, x(), int(2))]), x())),
                Stmt::Def("FNA".into(), vec!["X".into()], bin(BinOp::Add, f("FNB", vec![bin(BinOp::Add, x(), int(1))]), x())),
            ],
            1,
            false,
        ),
        ("parameter-named-like-caller-global", vec![Stmt::Def("FNA".into(), vec!["G".into()], bin(BinOp::Add, var("G"), var("X")))], 1, false),
        ("uses-builtin", vec![Stmt::Def("FNA".into(), vec!["X".into()], Expr::Call("ABS".into(), vec![bin(BinOp::Sub, x(), int(5))]))], 1, false),
        ("array-in-body", vec![Stmt::Def("FNA".into(), vec!["X".into()], bin(BinOp::Add, Expr::Arr("D".into(), vec![x()]), x()))], 1, false),
        // the parameter in a later slot of a nested argument list
        (
            "parameter-as-second-argument-of-builtin",
            vec![Stmt::Def("FNA".into(), vec!["X".into()], Expr::Call("LEN".into(), vec![Expr::Call("LEFT$".into(), vec![strlit("abcdefghijkl"), x()])]))],
            1,
            false,
        ),
        (
            "parameter-as-second-argument-of-function",
            vec![
                Stmt::Def("FNB".into(), vec!["P".into(), "Q".into()], bin(BinOp::Add, bin(BinOp::Mul, var("P"), int(10)), var("Q"))),
                Stmt::Def("FNA".into(), vec!["X".into()], bin(BinOp::Add, f("FNB", vec![int(1), x()]), f("FNB", vec![x(), int(2)]))),
            ],
            1,
            false,
        ),
        (
            "parameter-as-second-subscript",
            vec![
                Stmt::Let(LVal::Arr("T".into(), vec![int(1), int(2)]), int(8)),
                Stmt::Let(LVal::Arr("T".into(), vec![int(2), int(1)]), int(6)),
                Stmt::Def("FNA".into(), vec!["X".into()], bin(BinOp::Add, Expr::Arr("T".into(), vec![int(1), x()]), Expr::Arr("T".into(), vec![x(), int(1)]))),
            ],
            1,
            false,
        ),
        (
            "parameters-swapped-into-nested-call",
            vec![
                Stmt::Def("FNB".into(), vec!["P".into(), "Q".into()], bin(BinOp::Sub, bin(BinOp::Mul, var("P"), int(10)), var("Q"))),
                Stmt::Def("FNA".into(), vec!["X".into(), "Y".into()], f("FNB", vec![var("Y"), x()])),
            ],
            2,
            false,
        ),
        // parameters inside parentheses
        ("parameter-inside-parentheses", vec![Stmt::Def("FNA".into(), vec!["X".into()], bin(BinOp::Mul, bin(BinOp::Add, x(), int(1)), int(2)))], 1, false),
        (
            "two-parameters-inside-parentheses",
            vec![Stmt::Def("FNA".into(), vec!["X".into(), "Y".into()], bin(BinOp::Mul, bin(BinOp::Sub, x(), var("Y")), bin(BinOp::Add, var("Y"), int(1))))],
            2,
            false,
        ),
        (
            "parameter-in-nested-parentheses-and-negated",
            vec![Stmt::Def("FNA".into(), vec!["X".into()], bin(BinOp::Sub, int(100), bin(BinOp::Mul, int(2), bin(BinOp::Sub, int(3), Expr::Neg(Box::new(x()))))))],
            1,
            false,
        ),
        // FNA and FNA$ are different functions: their parameters of the same name are different variables
        (
            "same-name-other-type-same-parameter-name",
            vec![
                Stmt::Def("FNA$".into(), vec!["X".into()], Expr::Call("STRING$".into(), vec![x(), strlit("*")])),
                Stmt::Def("FNA".into(), vec!["X".into()], bin(BinOp::Add, Expr::Call("LEN".into(), vec![f("FNA$", vec![bin(BinOp::Add, x(), int(1))])]), x())),
            ],
            1,
            false,
        ),
        (
            "same-name-integer-and-default-type",
            vec![
                Stmt::Def("FNA%".into(), vec!["X".into()], bin(BinOp::Mul, x(), int(10))),
                Stmt::Def("FNA".into(), vec!["X".into()], bin(BinOp::Add, f("FNA%", vec![bin(BinOp::Add, x(), int(1))]), x())),
            ],
            1,
            false,
        ),
        (
            "three-parameters-into-builtin",
            vec![Stmt::Def(
                "FNA".into(),
                vec!["X".into(), "Y".into(), "Z".into()],
                Expr::Call("LEN".into(), vec![Expr::Call("MID$".into(), vec![strlit("abcdefghijkl"), bin(BinOp::Add, var("Z"), int(1)), bin(BinOp::Add, var("Y"), x())])]),
            )],
            3,
            false,
        ),
    ]
}

fn string_definitions() -> Vec<(&'static str, Vec<Stmt>)> {
    vec![
        ("string-param", vec![Stmt::Def("FNA".into(), vec!["X$".into()], Expr::Call("LEN".into(), vec![var("X$")]))]),
        ("string-function", vec![Stmt::Def("FNA$".into(), vec!["X$".into()], bin(BinOp::Add, var("X$"), strlit("!")))]),
        (
            "string-nested",
            vec![
                Stmt::Def("FNB$".into(), vec!["X$".into()], bin(BinOp::Add, var("X$"), strlit("b"))),
                Stmt::Def("FNA$".into(), vec!["X$".into()], bin(BinOp::Add, f("FNB$", vec![bin(BinOp::Add, var("X$"), strlit("a"))]), var("X$"))),
            ],
        ),
    ]
}

fn args(arity: usize) -> Vec<Vec<Expr>> {
    let singles: Vec<Expr> = vec![int(1), int(2), var("G"), sng(2.5, "2.5"), var("I"), int(7)];
    match arity {
        1 => singles.into_iter().map(|e| vec![e]).collect(),
        2 => vec![vec![int(7), int(2)], vec![int(2), int(7)], vec![var("G"), var("I")], vec![sng(2.5, "2.5"), int(1)]],
        _ => vec![vec![int(1), int(2), int(3)], vec![int(3), int(2), int(1)], vec![var("G"), int(0), var("I")]],
    }
}

/// calling contexts: statements of line 30 given the call expression
fn contexts(call: &dyn Fn() -> Expr, arity: usize) -> Vec<(&'static str, Vec<Stmt>)> {
    let c = call;
    let mut v = vec![
        ("print", vec![p(c())]),
        ("print-list", vec![Stmt::Print(vec![PItem::E(strlit("<")), PItem::Semi, PItem::E(c()), PItem::Semi, PItem::E(c()), PItem::E(strlit(">")), PItem::Semi])]),
        ("subscript", vec![Stmt::Let(LVal::Arr("E".into(), vec![Expr::Call("ABS".into(), vec![c()])]), int(5)), p(Expr::Arr("E".into(), vec![Expr::Call("ABS".into(), vec![c()])]))]),
        ("for-bounds", vec![Stmt::For("J".into(), int(0), Expr::Call("ABS".into(), vec![bin(BinOp::Mod, c(), int(3))]), None), p(var("J")), Stmt::Next(vec![])]),
        ("if-condition", vec![Stmt::If(bin(BinOp::Gt, c(), int(3)), Branch::Stmts(vec![p(strlit("t"))]), Some(Branch::Stmts(vec![p(strlit("f"))])))]),
        ("arithmetic", vec![Stmt::Let(lv("K"), bin(BinOp::Add, c(), bin(BinOp::Mul, c(), int(2)))), p(var("K"))]),
        ("assignment-to-integer", vec![Stmt::Let(lv("K%"), c()), p(var("K%"))]),
    ];
    if arity == 1 {
        v.push(("argument-of-itself", vec![p(f("FNA", vec![c()]))]));
        v.push(("on-goto", vec![Stmt::OnGoto(bin(BinOp::Mod, Expr::Call("ABS".into(), vec![c()]), int(3)), vec![40, 40]), p(strlit("n"))]));
    }
    v
}

#[derive(Clone, Copy, Debug, PartialEq)]
enum Perturb {
    None,
    GlobalChangedAfterDef,
    CallBeforeDef,
    TooManyArgs,
    TooFewArgs,
    UndefinedFunction,
    CalledFromDirectModeAfterRun,
    /// CLEAR between the DEF and the call: the function is gone
    ClearBeforeCall,
    /// a complete RUN, then RUN <call line>: the DEF has not run since the reset
    RunAtCallLineAfterRun,
}

const PERTURBS: [Perturb; 9] = [
    Perturb::None,
    Perturb::GlobalChangedAfterDef,
    Perturb::CallBeforeDef,
    Perturb::TooManyArgs,
    Perturb::TooFewArgs,
    Perturb::UndefinedFunction,
    Perturb::CalledFromDirectModeAfterRun,
    Perturb::ClearBeforeCall,
    Perturb::RunAtCallLineAfterRun,
];

fn judge(site: &str, prog: &Prog, direct: &[Vec<Stmt>], ctx: &mut Ctx) {
    let desc = describe(prog, direct);
    if !ctx.begin(&desc) {
        return;
    }
    match run_both(prog, direct, &[], 2000) {
        Both::Skip(why) => ctx.skip(&why),
        Both::Panic(pn) => ctx.violation(&format!("{}/panic", site), pn),
        Both::Done { exp, got } => {
            ctx.nontrivial(hash64(&exp));
            // an error raised inside a function body is reported against the
            // DEF line, which holds the body's code: the manual does not say
            // which line a failing call belongs to, so lines are not compared
            let (exp, got) = (super::common::strip_lines(&exp), super::common::strip_lines(&got));
            if exp != got {
                ctx.violation(&format!("{}/transcript-differs", site), format!("{} : expected {:?}, got {:?}", desc, exp, got));
            }
        }
    }
}

struct Functions;

impl Sweep for Functions {
    fn name(&self) -> String {
        "definitions-x-contexts-x-arguments-x-perturbations".into()
    }
    fn shards(&self) -> usize {
        definitions().len() + 1
    }
    fn run_shard(&self, shard: usize, ctx: &mut Ctx) {
        let defs = definitions();
        let run = vec![Stmt::Raw("RUN".into())];
        let setup = Line {
            num: 5,
            stmts: vec![
                Stmt::Let(lv("X"), int(77)),
                Stmt::Let(lv("Y"), int(66)),
                Stmt::Let(lv("G"), int(3)),
                Stmt::Let(lv("I"), int(4)),
                Stmt::Let(LVal::Arr("D".into(), vec![int(2)]), int(9)),
            ],
        };
        let tail = Line { num: 40, stmts: vec![Stmt::Print(vec![PItem::E(strlit("|")), PItem::Semi, PItem::E(var("X")), PItem::Semi, PItem::E(var("Y")), PItem::Semi, PItem::E(var("G")), PItem::Semi])] };
        if shard == defs.len() {
            // string functions, DEF in direct mode, recursion
            for (label, d) in string_definitions() {
                let name = if label == "string-param" { "FNA" } else { "FNA$" };
                for a in [strlit("q"), strlit(""), var("S$"), bin(BinOp::Add, var("S$"), strlit("é"))] {
                    let call = f(name, vec![a.clone()]);
                    let prog = Prog {
                        lines: vec![
                            Line { num: 5, stmts: vec![Stmt::Let(lv("S$"), strlit("glob")), Stmt::Let(lv("X$"), strlit("sentinel"))] },
                            Line { num: 10, stmts: d.clone() },
                            Line { num: 30, stmts: vec![p(call.clone()), p(bin(BinOp::Add, strlit(""), var("X$")))] },
                        ],
                    };
                    judge(label, &prog, &[run.clone()], ctx);
                }
                // type mismatch: number passed for a string parameter
                let prog = Prog { lines: vec![Line { num: 10, stmts: d.clone() }, Line { num: 30, stmts: vec![p(f(name, vec![int(1)]))] }] };
                judge(label, &prog, &[run.clone()], ctx);
            }
            // DEF in direct mode
            judge("direct-DEF", &Prog::default(), &[vec![Stmt::Def("FNA".into(), vec!["X".into()], var("X"))], vec![p(f("FNA", vec![int(1)]))]], ctx);
            let prog = Prog { lines: vec![Line { num: 10, stmts: vec![Stmt::Def("FNA".into(), vec!["X".into()], bin(BinOp::Mul, var("X"), int(2)))] }] };
            judge("direct-DEF", &prog, &[run.clone(), vec![Stmt::Def("FNA".into(), vec!["X".into()], var("X"))], vec![p(f("FNA", vec![int(4)]))]], ctx);
            // a call with an empty argument list is a run-time error of the calling line, not a refusal of the whole program
            for (call, code) in [("FNA()", "ILLEGAL FUNCTION CALL"), ("FNZ()", "UNDEFINED USER FUNCTION"), ("FNA(1,2)", "ILLEGAL FUNCTION CALL"), ("FNZ(1)", "UNDEFINED USER FUNCTION")] {
                let lines = ["10 DEF FNA(X)=X+1".to_string(), "20 PRINT \"m\";".to_string(), format!("30 PRINT {}", call)];
                if ctx.begin(&format!("{} // RUN", lines.join(" / "))) {
                    let r = guard(|| {
                        let mut s = Session::new();
                        for l in &lines {
                            s.enter(l);
                        }
                        s.take();
                        s.enter("RUN");
                        render_codes(&s.take())
                    });
                    match r {
                        Err(pn) => ctx.violation("wrong-arity-call/panic", pn),
                        Ok(t) => {
                            ctx.nontrivial(hash64(&(call, &t)));
                            if !t.starts_with("m") || !t.contains(&format!("<?{} IN 30>", code)) {
                                ctx.violation("wrong-arity-call/not-a-run-time-error-of-the-calling-line", format!("{} : RUN gave {:?}", lines.join(" / "), t));
                            }
                        }
                    }
                }
            }
            // an edit of the listing forgets every definition: a call from direct mode before the next RUN is undefined
            for edit in ["10", "5 REM", "10 DEF FNA(X)=X+1", "DELETE 10", "DELETE 30", "RENUM", "40 REM", "20", "25 PRINT 1"] {
                let lines = ["10 DEF FNA(X)=X+1", "20 DEF FNB(X)=X*100", "30 PRINT FNA(1);FNB(1);"];
                if ctx.begin(&format!("{} // RUN // {} // PRINT FNA(2) // PRINT FNB(2)", lines.join(" / "), edit)) {
                    let r = guard(|| {
                        let mut s = Session::new();
                        for l in lines {
                            s.enter(l);
                        }
                        s.take();
                        s.enter("RUN");
                        let ran = render_codes(&s.take());
                        s.enter(edit);
                        s.take();
                        s.enter("PRINT FNA(2)");
                        let a = render_codes(&s.take());
                        s.enter("PRINT FNB(2)");
                        let b = render_codes(&s.take());
                        (ran, a, b)
                    });
                    match r {
                        Err(pn) => ctx.violation("call-after-edit/panic", pn),
                        Ok((ran, a, b)) => {
                            ctx.nontrivial(hash64(&(edit, &ran)));
                            if !ran.starts_with(" 2  100 ") {
                                ctx.violation("call-after-edit/harness", format!("the program did not run: {:?}", ran));
                            } else if !a.contains("UNDEFINED USER FUNCTION") || !b.contains("UNDEFINED USER FUNCTION") {
                                ctx.violation("call-after-edit/stale-definition-used", format!("after {:?}: PRINT FNA(2) gave {:?}, PRINT FNB(2) gave {:?}", edit, a, b));
                            }
                        }
                    }
                }
            }
            // runaway recursion: OUT OF MEMORY, and the session stays usable
            for body in ["FNA(X-1)+1", "FNB(X)", "1+FNA(X)*2"] {
                let lines = vec![format!("10 DEF FNA(X)={}", body), "20 DEF FNB(X)=FNA(X)".to_string(), "30 PRINT FNA(3)".to_string()];
                if ctx.begin(&format!("{} // RUN // PRINT 1", lines.join(" / "))) {
                    let r = guard(|| {
                        let mut s = Session::with(5000, 400);
                        for l in &lines {
                            s.enter(l);
                        }
                        s.take();
                        s.enter("RUN");
                        let a = render_codes(&s.take());
                        s.enter("PRINT 1");
                        let b = render_codes(&s.take());
                        (a, b)
                    });
                    match r {
                        Err(pn) => ctx.violation("recursion/panic", pn),
                        Ok((a, b)) => {
                            ctx.nontrivial(hash64(&a));
                            if !a.contains("<?OUT OF MEMORY IN") || !b.starts_with(" 1 \n") {
                                ctx.violation("recursion/no-OUT-OF-MEMORY-or-session-unusable", format!("RUN gave {:?}, then PRINT 1 gave {:?}", a.chars().take(200).collect::<String>(), b));
                            }
                        }
                    }
                }
            }
            // default type of an unsuffixed parameter follows the parameter's own letter
            let prog = Prog {
                lines: vec![
                    Line { num: 10, stmts: vec![Stmt::DefType("DEFSTR", 'F', 'F'), Stmt::Def("FNA".into(), vec!["X".into()], bin(BinOp::Add, var("X"), int(1)))] },
                    Line { num: 30, stmts: vec![p(f("FNA", vec![int(1)]))] },
                ],
            };
            judge("parameter-typed-by-function-letter", &prog, &[run.clone()], ctx);
            let prog = Prog {
                lines: vec![
                    Line { num: 10, stmts: vec![Stmt::DefType("DEFINT", 'X', 'X'), Stmt::Def("FNA".into(), vec!["X".into()], bin(BinOp::Div, var("X"), int(2)))] },
                    Line { num: 30, stmts: vec![p(f("FNA", vec![sng(3.5, "3.5")]))] },
                ],
            };
            judge("parameter-default-type", &prog, &[run.clone()], ctx);
            ctx.sample();
            return;
        }
        let (label, def, arity, _) = &defs[shard];
        for a in args(*arity) {
            for pert in PERTURBS {
                let call_args: Vec<Expr> = match pert {
                    Perturb::TooManyArgs => {
                        let mut x = a.clone();
                        x.push(int(9));
                        x
                    }
                    Perturb::TooFewArgs => {
                        if a.len() == 1 {
                            continue;
                        }
                        a[..a.len() - 1].to_vec()
                    }
                    _ => a.clone(),
                };
                let fname = if pert == Perturb::UndefinedFunction { "FNZ" } else { "FNA" };
                let ca = call_args.clone();
                let call = move || f(fname, ca.clone());
                for (cname, stmts) in contexts(&call, *arity) {
                    let site = format!("{}/{}", label, cname);
                    let mut lines = vec![setup.clone()];
                    match pert {
                        Perturb::CallBeforeDef => {
                            lines.push(Line { num: 8, stmts: stmts.clone() });
                            lines.push(Line { num: 10, stmts: def.clone() });
                        }
                        Perturb::GlobalChangedAfterDef => {
                            lines.push(Line { num: 10, stmts: def.clone() });
                            lines.push(Line { num: 20, stmts: vec![Stmt::Let(lv("G"), bin(BinOp::Add, var("G"), int(10))), Stmt::Let(lv("X"), int(78))] });
                            lines.push(Line { num: 30, stmts: stmts.clone() });
                        }
                        Perturb::CalledFromDirectModeAfterRun => {
                            lines.push(Line { num: 10, stmts: def.clone() });
                        }
                        Perturb::ClearBeforeCall => {
                            lines.push(Line { num: 10, stmts: def.clone() });
                            lines.push(Line { num: 20, stmts: vec![Stmt::Clear] });
                            lines.push(Line { num: 30, stmts: stmts.clone() });
                        }
                        _ => {
                            lines.push(Line { num: 10, stmts: def.clone() });
                            lines.push(Line { num: 30, stmts: stmts.clone() });
                        }
                    }
                    lines.push(tail.clone());
                    let prog = Prog { lines };
                    if pert == Perturb::CalledFromDirectModeAfterRun {
                        if stmts.iter().any(|s| matches!(s, Stmt::OnGoto(..))) {
                            continue;
                        }
                        judge(&site, &prog, &[run.clone(), stmts.clone()], ctx);
                    } else if pert == Perturb::RunAtCallLineAfterRun {
                        judge(&site, &prog, &[run.clone(), vec![Stmt::Raw("RUN 30".into())]], ctx);
                    } else {
                        judge(&site, &prog, &[run.clone()], ctx);
                    }
                    if ctx.done() {
                        return;
                    }
                }
            }
        }
        ctx.sample();
    }
}

impl Check for C10 {
    fn id(&self) -> &'static str {
        "C10"
    }
    fn sweeps(&self, _tier: Tier) -> Vec<Box<dyn Sweep>> {
        vec![Box::new(Functions)]
    }
    fn meta(&self, _tier: Tier) -> Meta {
        Meta {
            bound: "17 numeric definition families (1..3 parameters; Integer / Double / default-typed parameters; bodies reading a global, a built-in, an array, another function with the same or another parameter name, three functions deep; a parameter named like a global the caller passes; parameters in the second or third slot of a nested built-in call, user-function call and array subscript) x every argument tuple of a small set (constants, globals, fractional, expression) x 9 calling contexts (PRINT, print list with two calls, array subscript, FOR bound, IF condition, arithmetic with two calls, assignment to an Integer, argument of the function itself, ON..GOTO selector) x 9 perturbations (none, globals changed between DEF and call, call before the DEF line ran, one argument too many / too few, undefined function, called from direct mode after the run, CLEAR between DEF and call, RUN then RUN <call line>); sentinels X, Y, G printed afterwards; 3 string definition families x 4 arguments; DEF in direct mode; three runaway recursions (OUT OF MEMORY and the session still answers PRINT 1); parameter default typing under DEFSTR F / DEFINT X".into(),
            rule: "a case is one program + session; compared: full transcript against the reference interpreter (local parameter scope, call-time evaluation); distinct_nontrivial = distinct expected transcripts".into(),
            states_note: "transitions = sessions compared with the reference interpreter".into(),
            assumptions: vec![
                "an argument is converted to the parameter's type (suffix, else the DEFtype of the parameter's own first letter) as assignment does".into(),
                "the result of a function is the value of its expression (no conversion by the function's name)".into(),
            ],
        }
    }
}
