//! C18 — memory pools are bounded at 64K and completed statements leave nothing behind.
//! (a) residue: every statement kind / every function, wrapped in five loop
//! shapes for 70 000 iterations (more than the 65 535-slot pools, so a leak of
//! one value per iteration must exhaust them); (b) limits: every pool driven
//! past its limit must end in OUT OF MEMORY with the session still usable.

use super::{Check, Meta};
use crate::driver::{render_codes, Ev, Session, Status};
use crate::engine::{guard, hash64, Ctx, Sweep, Tier};

pub struct C18;

const N: usize = 70000;

/// M cycles 0,1,..,6 (the loop counter itself exceeds the Integer range, so MOD cannot be used on it)
const CYCLE: &str = "M=(M+1)*-(M<6)";

/// (body statement, support lines, can be the body of IF..THEN on one line)
fn bodies() -> Vec<(&'static str, Vec<&'static str>, bool)> {
    let sub = vec!["9000 Q=Q+1:RETURN", "9010 RETURN"];
    let data = vec!["9100 DATA 1,2,\"x\""];
    let none: Vec<&'static str> = vec![];
    vec![
        ("A=I*2+1", none.clone(), true),
        ("A%=M:A#=I/3", none.clone(), true),
        ("A$=CHR$(65+M)+\"x\"", none.clone(), true),
        ("B(M)=I:C$(1)=STR$(I)", none.clone(), true),
        ("B(M)=B(M+1)+1", none.clone(), true),
        ("IF M AND 1 THEN A=1 ELSE A=2", none.clone(), false),
        ("IF I THEN A=1", none.clone(), false),
        ("IF 0 THEN A=1", none.clone(), false),
        ("IF M AND 1 THEN IF M\\3 THEN A=1 ELSE A=2", none.clone(), false),
        ("ON M\\3 GOSUB 9000,9010", sub.clone(), true),
        ("ON 0 GOSUB 9000,9010", sub.clone(), true),
        ("ON 5 GOSUB 9000,9010", sub.clone(), true),
        ("ON 2 GOSUB 9000,9010:ON 1 GOSUB 9000", sub.clone(), true),
        ("GOSUB 9000", sub.clone(), true),
        ("GOSUB 9000:GOSUB 9010", sub.clone(), true),
        // RETURN out of the subroutine's own (still open) loops discards their frames
        ("GOSUB 9020", vec!["9020 FOR J=1 TO 3:IF J=2 THEN RETURN", "9030 NEXT:RETURN"], true),
        ("GOSUB 9020:ON 1 GOSUB 9020", vec!["9020 FOR J=1 TO 3:FOR K=1 TO 2:IF K=2 THEN RETURN", "9030 NEXT K,J:RETURN"], true),
        ("GOSUB 9020", vec!["9020 WHILE 1:FOR J=1 TO 2:A=FNC(J):RETURN", "9030 NEXT:WEND", "5 DEF FNC(X)=X+1"], true),
        ("FOR J=1 TO 2:GOSUB 9020:NEXT", vec!["9020 FOR K=1 TO 2:RETURN"], true),
        ("FOR J=1 TO 2:NEXT", none.clone(), true),
        ("FOR J=1 TO 2:FOR K=1 TO 2:NEXT K,J", none.clone(), true),
        ("FOR J=3 TO 1 STEP -1:NEXT J", none.clone(), true),
        ("WHILE 0:WEND", none.clone(), true),
        ("K=0:WHILE K<2:K=K+1:WEND", none.clone(), true),
        ("RESTORE:READ A,B,R$", data.clone(), true),
        ("RESTORE 9100:READ A", data.clone(), true),
        ("DIM Z(3):Z(1)=1:ERASE Z", none.clone(), true),
        ("SWAP A,B:SWAP A$,B$", none.clone(), true),
        ("SWAP B(1),B(2)", none.clone(), true),
        // (DEFINT would drop the Single loop counter: "existing variables not matching the new type are dropped")
        ("DEFSNG Q:DEFSNG A-C", none.clone(), true),
        ("M$=\"abcd\":MID$(M$,2,1)=\"z\":MID$(M$,3)=\"yy\"", none.clone(), true),
        ("DEF FNC(X)=X+1:A=FNC(2)", none.clone(), true),
        ("A=FNA(I)+FNB(I,2)", vec!["5 DEF FNA(X)=X*2:DEF FNB(X,Y)=FNA(X)+Y"], true),
        ("A$=FNS$(\"q\")", vec!["5 DEF FNS$(X$)=X$+X$"], true),
        ("A=ABS(-I)+SGN(I)+INT(I/2)+FIX(I/2)+CINT(I/70000)", none.clone(), true),
        ("A#=SIN(I)+COS(I)+TAN(I)+ATN(I)+EXP(1)+LOG(I+1)+SQR(I)", none.clone(), true),
        ("A$=LEFT$(\"abc\",1)+RIGHT$(\"abc\",1)+MID$(\"abc\",2,1)+MID$(\"abc\",2)", none.clone(), true),
        ("A=LEN(A$)+ASC(\"a\")+INSTR(\"abc\",\"c\")+INSTR(2,\"abc\",\"c\")+VAL(\"12\")", none.clone(), true),
        ("A$=HEX$(M)+OCT$(M*9)+STRING$(2,\"x\")+STRING$(2,65)+SPC(1)+STR$(1)", none.clone(), true),
        ("A=POS(0)+RND(1)+RND():A$=TIME$+DATE$", none.clone(), true),
        ("A#=CDBL(I)+CSNG(I):A=TAB(2)=\"  \"", none.clone(), true),
        ("A=(1+2)*(3+4)-(5\\2)+(-I)+(NOT M AND 3 OR 4 XOR 5 IMP 6 EQV 7)", none.clone(), true),
        ("A=I^2+2^0.5+(\"a\"<\"b\")+(\"a\"=\"a\")+(1<=2)+(2>=1)+(1<>2)", none.clone(), true),
        ("TROFF:REM remark", none.clone(), false),
        ("A=1:'tick remark", none.clone(), false),
        ("PRINT \"\";", none.clone(), true),
        ("PRINT ;", none.clone(), true),
        ("LET A=1:LET B$=\"s\"", none.clone(), true),
        ("A=1::B=2", none.clone(), true),
        ("DATA 5,6", none.clone(), false),
        ("INPUT A", none.clone(), true),
        ("INPUT \"p\";A,B$", none.clone(), true),
        // every reply is first given with a surplus field (REDO FROM START), then correctly
        ("INPUT A,C", none.clone(), true),
        // POS with its dummy argument, TAB and SPC in expressions
        ("A=POS(0)+POS(1):A$=TAB(3)+SPC(2)", none.clone(), true),
        ("A$=INKEY$", none.clone(), true),
        ("CLS", none.clone(), true),
    ]
}

#[derive(Clone, Copy, Debug)]
enum Shape {
    For,
    While,
    GotoCounter,
    SubroutineFromFor,
    IfThenBody,
}

const SHAPES: [Shape; 5] = [Shape::For, Shape::While, Shape::GotoCounter, Shape::SubroutineFromFor, Shape::IfThenBody];

fn program(shape: Shape, body: &str, support: &[&str], n: usize) -> (Vec<String>, String) {
    let mut lines: Vec<String> = support.iter().map(|s| s.to_string()).collect();
    let done;
    match shape {
        Shape::For => {
            lines.push(format!("10 FOR I=1 TO {}", n));
            lines.push(format!("18 {}", CYCLE));
            lines.push(format!("20 {}", body));
            lines.push("30 NEXT".into());
            lines.push("40 PRINT \"done\";I:END".into());
            done = format!("done {} \n", n + 1);
        }
        Shape::While => {
            lines.push("10 I=0".into());
            lines.push(format!("15 WHILE I<{}:I=I+1", n));
            lines.push(format!("18 {}", CYCLE));
            lines.push(format!("20 {}", body));
            lines.push("30 WEND".into());
            lines.push("40 PRINT \"done\";I:END".into());
            done = format!("done {} \n", n);
        }
        Shape::GotoCounter => {
            lines.push("10 I=0".into());
            lines.push("15 I=I+1".into());
            lines.push(format!("18 {}", CYCLE));
            lines.push(format!("20 {}", body));
            lines.push(format!("30 IF I<{} THEN 15", n));
            lines.push("40 PRINT \"done\";I:END".into());
            done = format!("done {} \n", n);
        }
        Shape::SubroutineFromFor => {
            lines.push(format!("10 FOR I=1 TO {}:GOSUB 100:NEXT", n));
            lines.push("40 PRINT \"done\";I:END".into());
            lines.push(format!("100 {}:{}", CYCLE, body));
            lines.push("110 RETURN".into());
            done = format!("done {} \n", n + 1);
        }
        Shape::IfThenBody => {
            lines.push(format!("10 FOR I=1 TO {}", n));
            lines.push(format!("18 {}", CYCLE));
            lines.push(format!("20 IF I>0 THEN {}", body));
            lines.push("30 NEXT".into());
            lines.push("40 PRINT \"done\";I:END".into());
            done = format!("done {} \n", n + 1);
        }
    }
    lines.sort_by_key(|l| l.split(' ').next().unwrap().parse::<u32>().unwrap());
    (lines, done)
}

fn run_long(lines: &[String], replies: usize, reply: &str) -> Result<(String, bool), String> {
    guard(|| {
        let mut s = Session::with(5000, 400000);
        for l in lines {
            s.enter(l);
        }
        s.take();
        for _ in 0..replies {
            // "bad|good": a refused reply followed by the good one, every time
            for part in reply.split('|') {
                s.replies.push_back(part.to_string());
            }
        }
        let st = s.enter("RUN");
        let ev = s.take();
        let mut out = String::new();
        let mut err = false;
        for e in &ev {
            match e {
                Ev::Out(t) => {
                    // keep only the tail (loop bodies may print)
                    out.push_str(t);
                    if out.len() > 200 {
                        let cut = out.len() - 100;
                        let mut c = cut;
                        while !out.is_char_boundary(c) {
                            c += 1;
                        }
                        out = out[c..].to_string();
                    }
                }
                Ev::Err(v) => {
                    if v.iter().any(|x| x.code != "REDO FROM START") {
                        err = true;
                        out.push_str(&format!("<{}>", v[0].raw));
                    }
                }
                _ => {}
            }
        }
        (out, err || st != Status::Stopped)
    })
}

struct Residue {
    n: usize,
    shapes: Vec<Shape>,
}

impl Sweep for Residue {
    fn name(&self) -> String {
        format!("residue-{}-iterations", self.n)
    }
    fn shards(&self) -> usize {
        bodies().len() * self.shapes.len()
    }
    fn run_shard(&self, shard: usize, ctx: &mut Ctx) {
        let b = bodies();
        let (body, support, inline_ok) = &b[shard / self.shapes.len()];
        let shape = self.shapes[shard % self.shapes.len()];
        if matches!(shape, Shape::IfThenBody) && !inline_ok {
            return;
        }
        let (lines, done) = program(shape, body, support, self.n);
        if !ctx.begin(&format!("{} // RUN", lines.join(" / "))) {
            return;
        }
        let replies = if body.contains("INPUT") { self.n + 10 } else { 0 };
        ctx.nontrivial(hash64(&(body, format!("{:?}", shape))));
        match run_long(&lines, replies, if body.contains("B$") { "1,x" } else if body.contains("A,C") { "1,2,3|1,2" } else { "1" }) {
            Err(p) => ctx.violation(&format!("residue/{}", crate::engine::panic_class(&p)), p),
            Ok((out, err)) => {
                if err || !out.ends_with(&done) {
                    let site = body.split(|c: char| !c.is_ascii_alphanumeric() && c != '$').next().unwrap_or("");
                    let class = if out.contains("OUT OF MEMORY") { "runs-out-of-memory" } else { "does-not-complete" };
                    ctx.violation(&format!("residue/{}/{}", site, class), format!("{:?} loop around `{}` ended with {:?} instead of {:?}", shape, body, out, done));
                }
            }
        }
        ctx.sample();
    }
}

fn rss_kb() -> u64 {
    std::fs::read_to_string("/proc/self/statm")
        .ok()
        .and_then(|s| s.split_whitespace().nth(1).and_then(|p| p.parse::<u64>().ok()))
        .map(|pages| pages * 4)
        .unwrap_or(0)
}

fn big_lines(kind: usize) -> Vec<String> {
    match kind {
        // > 65535 DATA values
        4 => (0..150).map(|i| format!("{} DATA {}", 10 + i, vec!["1"; 480].join(","))).collect(),
        // > 65535 instructions
        5 => (0..340).map(|i| format!("{} {}", 10 + i, vec!["A=1"; 100].join(":"))).collect(),
        // one-instruction statements: the pool is packed to its very last slot
        n if n >= 60000 => {
            let mut v: Vec<String> = (0..n / 100).map(|i| format!("{} {}", 10 + i, vec!["TROFF"; 100].join(":"))).collect();
            if n % 100 > 0 {
                v.push(format!("{} {}", 10 + n / 100, vec!["TROFF"; n % 100].join(":")));
            }
            v
        }
        _ => vec![],
    }
}

/// Programs that restart themselves (RUN, RUN n, CLEAR executed from inside a
/// subroutine or a loop) 70 000 times: every restart must release the frames
/// that were open. The restarts are counted by the INPUT replies they consume.
struct Restarts;

const RESTARTERS: [[&str; 3]; 5] = [
    ["10 INPUT A:IF A=0 THEN PRINT \"done\":END", "20 GOSUB 30", "30 RUN"],
    ["10 INPUT A:IF A=0 THEN PRINT \"done\":END", "20 GOSUB 30", "30 RUN 10"],
    ["10 INPUT A:IF A=0 THEN PRINT \"done\":END", "20 FOR I=1 TO 2:GOSUB 30", "30 CLEAR:GOTO 10"],
    ["10 INPUT A:IF A=0 THEN PRINT \"done\":END", "20 FOR I=1 TO 9:FOR J=1 TO 2", "30 RUN"],
    ["10 INPUT A:IF A=0 THEN PRINT \"done\":END", "20 DEF FNA(X)=X+1:GOSUB 30", "30 B=FNA(1):CLEAR:GOTO 10"],
];

impl Sweep for Restarts {
    fn name(&self) -> String {
        "self-restarting-programs-70000-restarts".into()
    }
    fn shards(&self) -> usize {
        RESTARTERS.len()
    }
    fn run_shard(&self, shard: usize, ctx: &mut Ctx) {
        let lines = RESTARTERS[shard];
        if !ctx.begin(&format!("{} // RUN with {} replies 1 and a final 0", lines.join(" / "), N)) {
            return;
        }
        let r = guard(|| {
            let mut s = Session::with(5000, 400000);
            for l in lines {
                s.enter(l);
            }
            s.take();
            for _ in 0..N {
                s.replies.push_back("1".to_string());
            }
            s.replies.push_back("0".to_string());
            let st = s.enter("RUN");
            let ev = s.take();
            let mut tail = String::new();
            for e in ev.iter().rev().take(6).rev() {
                match e {
                    Ev::Out(t) => tail.push_str(t),
                    Ev::Err(v) => tail.push_str(&format!("<{}>", v[0].raw)),
                    _ => {}
                }
            }
            (tail, st, s.replies.len())
        });
        ctx.nontrivial(hash64(&shard));
        match r {
            Err(p) => ctx.violation(&format!("restart/{}", crate::engine::panic_class(&p)), p),
            Ok((tail, st, left)) => {
                if st != Status::Stopped || !tail.ends_with("done\n") || left != 0 {
                    let class = if tail.contains("OUT OF MEMORY") { "frames-not-released-by-restart" } else { "does-not-complete" };
                    ctx.violation(&format!("restart/{}", class), format!("ended with {:?} ({} replies left)", tail, left));
                }
            }
        }
        ctx.sample();
    }
}

struct Limits;

fn limit_cases() -> Vec<(&'static str, Vec<String>)> {
    let s = |v: &[&str]| v.iter().map(|x| x.to_string()).collect::<Vec<String>>();
    vec![
        ("runaway-GOSUB", s(&["10 GOSUB 10"])),
        ("runaway-ON-GOSUB", s(&["10 ON 1 GOSUB 10"])),
        ("FN-recursion", s(&["10 DEF FNA(X)=FNA(X)+1", "20 PRINT FNA(1)"])),
        ("abandoned-FOR", s(&["10 FOR I=1 TO 2:GOTO 10"])),
        ("too-much-DATA", big_lines(4)),
        ("too-much-code", big_lines(5)),
        ("too-much-code", big_lines(65535)),
        ("too-much-code", big_lines(65536)),
        ("too-much-code", big_lines(70000)),
        ("too-many-variables", s(&["10 DIM A(300,300)", "20 FOR I=0 TO 299:FOR J=0 TO 299:A(I,J)=1:NEXT J,I", "30 PRINT \"stored all\""])),
        ("too-many-string-variables", s(&["10 DIM A$(300,300)", "20 FOR I=0 TO 299:FOR J=0 TO 299:A$(I,J)=\"x\":NEXT J,I", "30 PRINT \"stored all\""])),
        ("GOSUB-inside-FOR-frames", s(&["10 FOR I=1 TO 2:GOSUB 10"])),
    ]
}

impl Sweep for Limits {
    fn name(&self) -> String {
        "limits".into()
    }
    fn shards(&self) -> usize {
        limit_cases().len() + 1
    }
    fn run_shard(&self, shard: usize, ctx: &mut Ctx) {
        let cases = limit_cases();
        if shard == cases.len() {
            // slots of variables set back to 0 / "" are freed: 90 000 distinct elements, one at a time
            // (also zeros that only arise from the conversion to the element's type)
            let lines: Vec<String> = [
                "10 DIM A(300,300),S$(300,300),C%(300,300),F!(300,300),G!(300,300),H%(300,300),K#(300,300),T$(300,300)",
                "20 FOR I=0 TO 299:FOR J=0 TO 299:A(I,J)=1:A(I,J)=0:S$(I,J)=\"x\":S$(I,J)=\"\":C%(I,J)=1:C%(I,J)=C%(I,J)/2:F!(I,J)=1:F!(I,J)=1D-60",
                "25 G!(I,J)=2.5:G!(I,J)=G!(I,J)-2.5:H%(I,J)=3:H%(I,J)=H%(I,J)-3:K#(I,J)=1:K#(I,J)=K#(I,J)-K#(I,J):T$(I,J)=\"y\":T$(I,J)=LEFT$(T$(I,J),0):NEXT J,I",
                "30 PRINT \"done\";I:END",
            ]
                .iter()
                .map(|s| s.to_string())
                .collect();
            if ctx.begin(&format!("{} // RUN", lines.join(" / "))) {
                match run_long(&lines, 0, "") {
                    Err(p) => ctx.violation(&format!("zeroed-variables/{}", crate::engine::panic_class(&p)), p),
                    Ok((out, err)) => {
                        ctx.nontrivial(hash64(&out));
                        if err || !out.ends_with("done 300 \n") {
                            ctx.violation("zeroed-variables/slots-not-freed", format!("ended with {:?}", out));
                        }
                    }
                }
            }
            return;
        }
        let (name, lines) = &cases[shard];
        let short = format!("{} // RUN // PRINT 1 // NEW // 10 FOR I=1 TO 3:PRINT I;:NEXT // RUN", if lines.len() > 4 { format!("{} ... ({} lines, {} bytes)", &lines[0][..40.min(lines[0].len())], lines.len(), lines.iter().map(|l| l.len()).sum::<usize>()) } else { lines.join(" / ").chars().take(160).collect() });
        if !ctx.begin(&short) {
            return;
        }
        let before = rss_kb();
        let r = guard(|| {
            let mut s = Session::with(5000, 4000);
            for l in lines {
                s.enter(l);
            }
            s.take();
            s.enter("RUN");
            let a = render_codes(&s.take());
            s.enter("PRINT 1");
            let b = render_codes(&s.take());
            s.enter("CONT");
            s.take();
            s.enter("PRINT 1+1");
            let b2 = render_codes(&s.take());
            s.enter("NEW");
            if !s.listing_text().is_empty() {
                // NEW itself was refused: the only way back is deleting line by line
                for l in lines {
                    s.enter(l.split(' ').next().unwrap_or(""));
                }
            }
            s.enter("10 FOR I=1 TO 3:PRINT I;:NEXT");
            s.take();
            s.enter("RUN");
            let c = render_codes(&s.take());
            (a, b, b2, c)
        });
        let grown = rss_kb().saturating_sub(before);
        match r {
            Err(p) => ctx.violation(&format!("{}/{}", name, crate::engine::panic_class(&p)), p),
            Ok((a, b, b2, c)) => {
                ctx.nontrivial(hash64(&(name, a.contains("OUT OF MEMORY"))));
                let tail: String = a.chars().rev().take(120).collect::<Vec<_>>().into_iter().rev().collect();
                if !a.contains("<?OUT OF MEMORY") {
                    ctx.violation(&format!("{}/no-OUT-OF-MEMORY", name), format!("RUN ended with ...{:?}", tail));
                }
                if b.contains("OUT OF MEMORY") && b2.contains("OUT OF MEMORY") {
                    // one root cause, one signature: the oversized program stays in memory and
                    // every direct statement (even NEW, DELETE, LIST, SAVE) fails to compile behind it
                    ctx.violation(&format!("{}/every-direct-statement-refused-afterwards", name), format!("PRINT 1 gave {:?}, PRINT 1+1 gave {:?}", b, b2));
                } else if !b.starts_with(" 1 \n") || !b2.starts_with(" 2 \n") {
                    ctx.violation(&format!("{}/session-unusable-afterwards", name), format!("PRINT 1 gave {:?}, after CONT PRINT 1+1 gave {:?}", b, b2));
                }
                if !c.starts_with(" 1  2  3 ") {
                    ctx.violation(&format!("{}/next-program-does-not-run", name), format!("a fresh 3-iteration loop gave {:?}", c));
                }
                if grown > 600_000 {
                    ctx.violation(&format!("{}/memory-grows", name), format!("resident set grew by {} KiB", grown));
                }
            }
        }
        ctx.sample();
    }
}

impl Check for C18 {
    fn id(&self) -> &'static str {
        "C18"
    }
    fn sweeps(&self, tier: Tier) -> Vec<Box<dyn Sweep>> {
        let shapes = match tier {
            Tier::Quick => vec![Shape::For, Shape::GotoCounter, Shape::SubroutineFromFor],
            Tier::Thorough => SHAPES.to_vec(),
        };
        vec![Box::new(Limits), Box::new(Restarts), Box::new(Residue { n: N, shapes })]
    }
    fn meta(&self, tier: Tier) -> Meta {
        Meta {
            bound: format!(
                "(a) 50 loop bodies covering every loopable statement kind and every built-in function (assignments of each type, array elements, IF/ELSE forms, ON..GOSUB in and out of range, GOSUB, nested FOR, WHILE, READ/RESTORE, DIM/ERASE, SWAP, DEFtype, MID$ assignment, DEF FN and calls, every numeric and string function, operators, remarks, PRINT, INPUT, INKEY$, CLS) x {} loop shapes, 70 000 iterations each; 90 000 distinct array elements set and reset one at a time; (b) thirteen ways past a limit (also programs of exactly 65 535, 65 536 and 70 000 one-instruction statements): runaway GOSUB, ON..GOSUB, FN recursion, abandoned FOR, GOSUB inside FOR frames, more than 65 535 DATA values, more than 65 535 instructions, more than 65 536 numeric / string variables, a 500-deep expression - each followed by PRINT 1, CONT, PRINT 1+1, NEW and a small program",
                tier.pick(3, 5)
            ),
            rule: "a case is one program run; residue: must finish with 'done <count>' and no error; limits: OUT OF MEMORY reported, no panic, resident set growth below 600 MiB, the session and the next program work; distinct_nontrivial = distinct (body, shape) / limit cases".into(),
            states_note: "transitions = programs run to completion (about 700 000 VM instructions each)".into(),
            assumptions: vec![
                "70 000 iterations exceed every 65 535-entry pool, so one leaked value per iteration is necessarily observed as OUT OF MEMORY".into(),
                "resident-set growth is read from /proc/self/statm around each limit case (other worker threads run concurrently, hence the generous threshold)".into(),
            ],
        }
    }
}
