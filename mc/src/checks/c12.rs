//! C12 — RUN, CLEAR and NEW reset state completely.
//! Explicit-state search over session prefixes: for every program of a
//! family, after every history of runs (to completion, to an error, to STOP
//! inside loops and subroutines, interrupted after k instructions) and direct
//! statements, RUN must equal RUN in a fresh interpreter holding the same
//! listing; CLEAR / NEW followed by a battery of probes must equal the probes
//! in a fresh interpreter.

use super::{Check, Meta};
use crate::driver::{render_codes, Session, Status};
use crate::engine::{hash64, Sweep, Tier};
use crate::space::{SpaceModel, SpaceSweep, Step};

pub struct C12;

pub fn programs() -> Vec<Vec<&'static str>> {
    vec![
        vec!["10 A=A+1:PRINT A;:DIM B(5):B(2)=B(2)+3:PRINT B(2);", "20 A$=A$+\"x\":PRINT A$;", "30 END", "40 PRINT \"sub\";:STOP:RETURN"],
        vec!["10 DEFINT A-C:A=1.7:PRINT A;", "20 DEF FNA(X)=X*2:PRINT FNA(A);", "30 READ X,Y$:PRINT X;Y$;", "40 DATA 5,\"d\",6", "50 STOP", "60 PRINT \"after\";:READ X:PRINT X;"],
        vec!["10 FOR I=1 TO 3:PRINT I;:IF I=2 THEN STOP", "20 NEXT:PRINT \"done\";"],
        vec!["10 PRINT \"a\";:X%=X%+20000:PRINT X%;", "20 X%=X%+20000", "30 PRINT \"b\";"],
        vec!["10 INPUT A,B$:PRINT A;B$;", "20 S=S+A:PRINT S;", "40 PRINT \"sub\";:RETURN"],
        vec!["10 GOSUB 100:PRINT \"m\";", "20 END", "100 GOSUB 200:RETURN", "200 PRINT \"t\";:DIM Q(2):Q(1)=Q(1)+1:PRINT Q(1);:DIM Q(2)"],
        vec!["10 WHILE W<3:W=W+1:PRINT W;:WEND", "20 SWAP W,V:PRINT W;V;", "40 STOP:RETURN"],
        vec!["10 DEFSTR S:S=\"k\":S(1)=\"e\":PRINT S;S(1);", "20 DEFDBL D:D=1/3:PRINT D;", "30 PRINT A;A$;"],
        vec!["10 RESTORE 40:READ A:PRINT A;", "20 ON A GOSUB 100,200", "30 END", "40 DATA 2,1", "100 PRINT \"one\";:RETURN", "200 PRINT \"two\";:STOP:RETURN"],
        vec!["10 READ A:PRINT A;:READ A:PRINT A;", "20 DATA 1,2", "30 READ A"],
        vec!["10 DIM A(3):A(3)=A(3)+1:PRINT A(3);", "20 FOR I=1 TO 2:GOSUB 40:NEXT", "30 END", "40 PRINT I;:IF I=2 THEN STOP", "50 RETURN"],
        vec!["10 DEF FNA(X)=X+K:K=K+1:PRINT FNA(1);", "20 PRINT \"t\";:K=K*2:PRINT FNA(K);", "30 ERASE Z"],
        // the call comes before the definition: after a reset it is undefined again
        vec!["10 PRINT FNA(3);", "20 END", "30 DEF FNA(X)=X+1", "40 GOTO 10"],
    ]
}

#[derive(Clone, PartialEq, Debug)]
enum Act {
    Prog(usize),
    Line(&'static str),
    /// RUN, then interrupt after k single instructions
    RunInt(usize),
    /// judged against a fresh interpreter
    Run,
    ClearProbe,
    NewProbe,
    /// NEW executed by a stored line (typed at the given number), then the probes
    NewInProgramProbe(&'static str),
    /// LOAD of a file holding the current listing, then the probes
    LoadProbe,
}

struct Model {
    acts: Vec<(String, Act)>,
    depth: usize,
    only_prog: Option<usize>,
}

const PROBES: [&str; 13] = [
    // CONT first: a failing direct statement drops a pending continuation
    "CONT",
    "PRINT B(7);Q(7);A;A%;A#;A$;B(2);S;X;I;W;Q(1);D;K",
    "DIM A(3):A(3)=1:DIM B(9),Q(9)",
    "RETURN",
    "NEXT",
    "CONT",
    "PRINT FNA(1)",
    "READ Z:PRINT Z",
    // constants added after the reset are read from the first one
    "64000 DATA 77,78",
    "READ Z1:PRINT Z1",
    "RESTORE:READ Z2:PRINT Z2",
    "A1=1.5:S1$=\"s\":PRINT A1;S1$",
    "LIST",
];

fn replies() -> Vec<String> {
    ["4,w", "1,q", "2,r", "3,s", "5,t", "6,u"].iter().map(|s| s.to_string()).collect()
}

fn new_session() -> Session {
    let mut s = Session::with(500, 40);
    s.replies = replies().into_iter().collect();
    s
}

fn model(depth: usize, only_prog: Option<usize>) -> Model {
    let mut acts: Vec<(String, Act)> = vec![];
    for i in 0..programs().len() {
        acts.push((format!("program-{}", i), Act::Prog(i)));
    }
    for l in [
        "A=5", "A$=\"q\"", "B(2)=7", "DIM A(3)", "DEFINT A-Z", "DEFSTR S", "READ X", "RESTORE 40", "FOR I=1 TO 9",
        "GOSUB 40", "GOSUB 200", "K=3:W=9", "X%=30000", "PRINT \"col\";", "CLEAR", "CONT",
        // direct lines that fail to compile / to link, and edits of the listing
        "PRINT )", "GOTO 500", "5 REM", "20",
        // refused (ILLEGAL DIRECT): must leave nothing in the program's DATA
        "DATA 99",
        // the array touched last before a reset, with other bounds than the program's
        "DIM B(20):B(20)=3", "Q(7)=1",
        "GOTO 30",
    ] {
        acts.push((l.to_string(), Act::Line(l)));
    }
    for k in [3usize, 9, 20] {
        acts.push((format!("RUN-interrupted-after-{}", k), Act::RunInt(k)));
    }
    acts.push(("RUN".into(), Act::Run));
    acts.push(("CLEAR+probes".into(), Act::ClearProbe));
    acts.push(("NEW+probes".into(), Act::NewProbe));
    acts.push(("LOAD+probes".into(), Act::LoadProbe));
    acts.push(("15 NEW+RUN+probes".into(), Act::NewInProgramProbe("15 NEW")));
    acts.push(("25 PRINT \"n\";:NEW+RUN+probes".into(), Act::NewInProgramProbe("25 PRINT \"n\";:NEW")));
    Model { acts, depth, only_prog }
}

fn probe_transcript(s: &mut Session) -> String {
    let mut t = String::new();
    for p in PROBES {
        s.enter(p);
        t.push_str(&render_codes(&s.take()));
        t.push('|');
    }
    t
}

impl SpaceModel for Model {
    fn name(&self) -> String {
        match self.only_prog {
            Some(p) => format!("session-prefixes-program-{}", p),
            None => "session-prefixes".into(),
        }
    }
    fn action_names(&self) -> Vec<String> {
        self.acts.iter().map(|(n, _)| n.clone()).collect()
    }
    fn max_depth(&self) -> usize {
        self.depth
    }
    fn run(&self, hist: &[usize]) -> Option<Step> {
        let at = std::cell::Cell::new(0usize);
        match crate::engine::guard(|| self.run_inner(hist, &at)) {
            Ok(r) => r,
            Err(p) => {
                // a panic is C03's business unless it happens on a transition this check judges
                let mut viols = vec![];
                let last = hist.len().saturating_sub(1);
                if at.get() == last && matches!(self.acts[hist[last]].1, Act::Run | Act::ClearProbe | Act::NewProbe | Act::NewInProgramProbe(_) | Act::LoadProbe) {
                    viols.push((format!("{}/panic", self.acts[hist[last]].0), p));
                }
                Some(Step { digest: hash64(&("panic", hist)), viols, nontrivial: None, terminal: true })
            }
        }
    }
}

impl Model {
    fn run_inner(&self, hist: &[usize], at: &std::cell::Cell<usize>) -> Option<Step> {
        if hist.is_empty() {
            return Some(Step { digest: 0, viols: vec![], nontrivial: None, terminal: false });
        }
        // the first action chooses the program; later actions never do
        let first = &self.acts[hist[0]].1;
        let prog = match first {
            Act::Prog(p) => *p,
            _ => return None,
        };
        if let Some(only) = self.only_prog {
            if prog != only {
                return None;
            }
        }
        if hist[1..].iter().any(|a| matches!(self.acts[*a].1, Act::Prog(_))) {
            return None;
        }
        let listing = programs()[prog].clone();
        let mut s = new_session();
        for l in &listing {
            s.enter(l);
        }
        s.take();
        let mut viols = vec![];
        let mut nontrivial = None;
        let mut terminal = false;
        for (i, &ai) in hist.iter().enumerate().skip(1) {
            let last = i + 1 == hist.len();
            at.set(i);
            let (name, act) = &self.acts[ai];
            match act {
                Act::Prog(_) => unreachable!(),
                Act::Line(l) => {
                    s.enter(l);
                    s.take();
                }
                Act::RunInt(k) => {
                    s.quantum = 1;
                    s.rt.enter("RUN");
                    let mut ended = false;
                    for _ in 0..*k {
                        if let Some(Status::Stopped) = s.step() {
                            ended = true;
                            break;
                        }
                    }
                    if !ended {
                        s.rt.interrupt();
                        s.drain();
                    }
                    s.quantum = 500;
                    s.take();
                }
                Act::Run => {
                    // INPUT replies must be the same on both sides
                    s.replies = replies().into_iter().collect();
                    let now = s.listing_text();
                    s.enter("RUN");
                    let got = render_codes(&s.take());
                    if last {
                        let mut f = new_session();
                        for l in &now {
                            f.enter(l);
                        }
                        f.take();
                        f.enter("RUN");
                        let exp = render_codes(&f.take());
                        nontrivial = Some(hash64(&(prog, &exp)));
                        if got != exp {
                            viols.push((
                                "RUN/differs-from-fresh-interpreter".to_string(),
                                format!("after {:?}: RUN gave {:?}, in a fresh interpreter {:?}", name, got, exp),
                            ));
                        }
                    }
                }
                Act::ClearProbe | Act::NewProbe | Act::NewInProgramProbe(_) | Act::LoadProbe => {
                    // (LOAD of the listing itself: afterwards like a fresh interpreter holding it)
                    let is_new = !matches!(act, Act::ClearProbe | Act::LoadProbe);
                    let now = s.listing_text();
                    if *act == Act::LoadProbe {
                        let text: String = now.iter().map(|l| format!("{}\n", l)).collect();
                        s.files.retain(|(n, _)| n != "self");
                        s.files.push(("self".to_string(), text));
                        s.enter("LOAD \"self\"");
                    } else if let Act::NewInProgramProbe(line) = act {
                        s.enter(line);
                        s.replies = replies().into_iter().collect();
                        s.enter("RUN");
                        if !s.listing_text().is_empty() {
                            // the run ended (error, STOP, END) before reaching the NEW line: nothing to judge
                            return Some(Step { digest: hash64(&("new-not-reached", hist)), viols, nontrivial, terminal: true });
                        }
                    } else {
                        s.enter(if is_new { "NEW" } else { "CLEAR" });
                    }
                    s.take();
                    let got = probe_transcript(&mut s);
                    if last {
                        let mut f = new_session();
                        if !is_new {
                            for l in &now {
                                f.enter(l);
                            }
                        }
                        f.take();
                        let exp = probe_transcript(&mut f);
                        nontrivial = Some(hash64(&(prog, is_new, &exp)));
                        if got != exp {
                            viols.push((
                                format!("{}/state-differs-from-start-up", if *act == Act::LoadProbe { "LOAD" } else if is_new { "NEW" } else { "CLEAR" }),
                                format!("probes gave {:?}, in a fresh interpreter {:?}", got, exp),
                            ));
                        }
                    }
                    // the probes themselves dirty the state: do not continue from here
                    terminal = true;
                }
            }
        }
        let d = hash64(&s.rt.verif_digest());
        Some(Step { digest: d, viols, nontrivial, terminal })
    }
}

impl Check for C12 {
    fn id(&self) -> &'static str {
        "C12"
    }
    fn sweeps(&self, tier: Tier) -> Vec<Box<dyn Sweep>> {
        vec![Box::new(SpaceSweep { model: model(tier.pick(5, 7), None) })]
    }
    fn meta(&self, tier: Tier) -> Meta {
        Meta {
            bound: format!(
                "13 programs (variables, arrays, DEFtype, DEF FN also called before its definition, DATA/RESTORE, FOR/GOSUB/WHILE, INPUT, STOP inside loops and subroutines, runtime errors) x all histories of up to {} actions from 32 (22 direct lines incl. assignments, DIM with other bounds than the program's, DEFINT/DEFSTR, READ, RESTORE, FOR, GOSUB into STOP, CLEAR, CONT, one that fails to compile, one that fails to link and a refused direct DATA; two edits of the listing; RUN interrupted after 3, 9, 20 instructions; RUN; CLEAR+probes; NEW+probes; NEW executed by a stored line at two places + probes), deduplicated by the full state digest",
                tier.pick(4, 6)
            ),
            rule: "a case is one transition; judged transitions are RUN (compared with RUN in a fresh interpreter holding the current listing) and CLEAR / NEW followed by 10 probe lines (compared with the probes in a fresh interpreter); distinct_nontrivial = distinct (program, fresh transcript)".into(),
            states_note: "states = distinct full-state digests; transitions = actions executed".into(),
            assumptions: vec![
                "TRON is not among the items the property enumerates (it persists across RUN by design) and is only used inside one program that switches it off again".into(),
                "RND is not used: the generator is reseeded from OS entropy on CLEAR and excluded from the digest".into(),
            ],
        }
    }
}
