//! C01 — compiled execution follows the documented control-flow semantics.
//! Every program of the bounded space is run on the real interpreter and on
//! the reference statement interpreter; transcripts must agree.

use super::progspace::{Level, ProgSweep};
use super::{Check, Meta};
use crate::driver::{Ev, Session};
use crate::engine::{guard, hash64, Ctx, Sweep, Tier};
use crate::gen::{render_stmts, Prog, Stmt};
use crate::refmodel::interp::{End, Machine, REv};
use std::collections::VecDeque;

pub struct C01;

/// reference statement budget; the implementation gets 4*S+64 slices of 16 instructions
pub const S: u64 = 150;

#[derive(Clone, Copy, PartialEq, Eq, Debug)]
pub enum Mode {
    Run,
    TronRun,
    Direct,
}

pub const MODES: [Mode; 3] = [Mode::Run, Mode::TronRun, Mode::Direct];

pub fn render_ref(ev: &[REv]) -> String {
    let mut s = String::new();
    for e in ev {
        match e {
            REv::Out(t) => s.push_str(t),
            REv::Prompt(p, c) => s.push_str(&format!("\u{1}INPUT:{}:{}\u{2}", p, c)),
            REv::Err(code, line) => match line {
                Some(l) => s.push_str(&format!("\u{1}?{} IN {}\u{2}", code, l)),
                None => s.push_str(&format!("\u{1}?{}\u{2}", code)),
            },
            REv::CompileErrors => s.push_str("\u{1}COMPILE-ERRORS\u{2}"),
            REv::Ready(f) => s.push_str(if *f { "\u{1}NL-READY\u{2}" } else { "\u{1}READY\u{2}" }),
        }
    }
    s
}

pub const COMPILE_CODES: [&str; 4] = ["UNDEFINED LINE", "WHILE WITHOUT WEND", "WEND WITHOUT WHILE", "SYNTAX ERROR"];

/// Implementation events in the reference's vocabulary. Returns (text, cut).
pub fn render_impl(ev: &[Ev]) -> (String, bool) {
    let mut out: Vec<REv> = vec![];
    let mut cut = false;
    for e in ev {
        match e {
            Ev::Out(t) => {
                if let Some(REv::Out(p)) = out.last_mut() {
                    p.push_str(t);
                } else {
                    out.push(REv::Out(t.clone()));
                }
            }
            Ev::Err(v) => {
                if v.iter().all(|e| COMPILE_CODES.contains(&e.code.as_str())) && !v.is_empty() {
                    out.push(REv::CompileErrors);
                } else {
                    for e in v {
                        out.push(REv::Err(e.code.clone(), e.line.map(|l| l as u16)));
                    }
                }
            }
            Ev::Prompt(p, c) => out.push(REv::Prompt(p.clone(), *c)),
            Ev::Ready(f) => out.push(REv::Ready(*f)),
            Ev::Cut => {
                cut = true;
                break;
            }
            Ev::List(t, _) => out.push(REv::Out(format!("\u{1}LIST:{}\u{2}", t))),
            Ev::Cls => out.push(REv::Out("\u{1}CLS\u{2}".into())),
            Ev::Inkey => out.push(REv::Out("\u{1}INKEY\u{2}".into())),
            Ev::Load(n) | Ev::Run(n) | Ev::Save(n) => out.push(REv::Out(format!("\u{1}FILE:{}\u{2}", n))),
        }
    }
    (render_ref(&out), cut)
}

pub struct RefRun {
    pub text: String,
    pub end: End,
    pub branches: u64,
    pub steps: u64,
}

pub fn split(p: &Prog, mode: Mode) -> (Prog, Vec<Stmt>) {
    match mode {
        Mode::Direct => {
            let mut stored = p.clone();
            let last = stored.lines.pop().map(|l| l.stmts).unwrap_or_default();
            (stored, last)
        }
        _ => (p.clone(), vec![]),
    }
}

pub fn run_ref(p: &Prog, mode: Mode, script: &[String]) -> RefRun {
    let (stored, direct) = split(p, mode);
    let mut m = Machine::new(&stored);
    let mut replies: VecDeque<String> = script.iter().cloned().collect();
    let mut end = End::Stopped;
    if mode == Mode::TronRun {
        end = m.direct(&[Stmt::Tron], &mut replies, S);
    }
    if end == End::Stopped {
        end = match mode {
            Mode::Direct => m.direct(&direct, &mut replies, S),
            _ => m.run(None, &mut replies, S),
        };
    }
    RefRun { text: render_ref(&m.ev), end, branches: m.branches, steps: m.steps }
}

pub fn run_impl(p: &Prog, mode: Mode, script: &[String]) -> Result<(String, bool), String> {
    let (stored, direct) = split(p, mode);
    guard(|| {
        let mut s = Session::with(16, (4 * S + 64) as usize);
        for l in stored.render() {
            s.enter(&l);
        }
        s.take();
        s.replies = script.iter().cloned().collect();
        if mode == Mode::TronRun {
            s.enter("TRON");
        }
        match mode {
            Mode::Direct => s.enter(&render_stmts(&direct)),
            _ => s.enter("RUN"),
        };
        render_impl(&s.take())
    })
}

pub fn describe(p: &Prog, mode: Mode, script: &[String]) -> String {
    let (stored, direct) = split(p, mode);
    let mut lines = stored.render();
    if mode == Mode::TronRun {
        lines.push("TRON".into());
    }
    match mode {
        Mode::Direct => lines.push(render_stmts(&direct)),
        _ => lines.push("RUN".into()),
    }
    format!("{} ; replies {:?}", lines.join(" / "), script)
}

fn explore(p: &Prog, mode: Mode, script: &mut Vec<String>, depth: usize, ctx: &mut Ctx) {
    let desc = describe(p, mode, script);
    if !ctx.begin(&desc) {
        // still need to walk the reply tree so that sequence numbers stay aligned
        let r = run_ref(p, mode, script);
        if r.end == End::NeedInput && script.len() < depth {
            for k in 0..4 {
                script.push(k.to_string());
                explore(p, mode, script, depth, ctx);
                script.pop();
            }
        }
        return;
    }
    let r = run_ref(p, mode, script);
    ctx.count_n("ref_steps", r.steps);
    if let End::Undefined(why) = &r.end {
        ctx.skip(why);
        return;
    }
    if r.end == End::NeedInput && script.len() < depth {
        // branch over the next reply instead of judging the truncated run
        ctx.acc.evals -= 1;
        for k in 0..4 {
            script.push(k.to_string());
            explore(p, mode, script, depth, ctx);
            script.pop();
        }
        return;
    }
    let mode_name = match mode {
        Mode::Run => "run",
        Mode::TronRun => "tron-run",
        Mode::Direct => "direct",
    };
    match run_impl(p, mode, script) {
        Err(panic) => ctx.violation(&format!("{}/panic", mode_name), format!("panic: {}", panic)),
        Ok((text, cut)) => {
            let ok = match r.end {
                End::Stopped => !cut && text == r.text,
                _ => text.starts_with(&r.text),
            };
            if r.branches > 0 {
                ctx.nontrivial(hash64(&r.text));
            }
            if r.end == End::Budget {
                ctx.count("diverging_programs_compared_on_prefix");
            }
            if !ok {
                let class = if r.end == End::Stopped && cut {
                    "implementation-does-not-terminate"
                } else {
                    "transcript-differs"
                };
                ctx.violation(
                    &format!("{}/{}", mode_name, class),
                    format!("expected {:?} ({:?}), implementation gave {:?} (cut={})", r.text, r.end, text, cut),
                );
            }
        }
    }
    ctx.sample();
}

pub fn judge(p: &Prog, ctx: &mut Ctx) {
    for mode in MODES {
        if mode == Mode::Direct {
            // an empty direct line is not a line (nothing is entered)
            let (_, d) = split(p, mode);
            if render_stmts(&d).trim().is_empty() {
                continue;
            }
        }
        let mut script = vec![];
        explore(p, mode, &mut script, 2, ctx);
        if ctx.done() {
            return;
        }
    }
}

fn sweep(n: usize, level: Level) -> Box<dyn Sweep> {
    Box::new(ProgSweep { label: "programs".into(), n, level, judge: Box::new(judge), verdict_on_crash: false })
}

/// the same space with the program starting at line 0 (line 0 is a legal target)
fn sweep0(n: usize, level: Level) -> Box<dyn Sweep> {
    Box::new(ProgSweep { label: "programs-from-line-0".into(), n, level, judge: Box::new(judge), verdict_on_crash: false })
}

fn skel(level: Level) -> Box<dyn Sweep> {
    Box::new(super::progspace::SkeletonSweep { label: "programs".into(), level, judge: Box::new(judge) })
}

impl Check for C01 {
    fn id(&self) -> &'static str {
        "C01"
    }
    fn sweeps(&self, tier: Tier) -> Vec<Box<dyn Sweep>> {
        match tier {
            Tier::Quick => vec![
                sweep(1, Level::Full),
                sweep(2, Level::Full),
                skel(Level::Medium),
                sweep0(2, Level::Full),
                sweep0(3, Level::Core),
                sweep(3, Level::Medium),
                sweep(4, Level::Core),
                sweep(2, Level::Mixed),
                sweep(3, Level::Mixed),
            ],
            Tier::Thorough => vec![
                sweep(1, Level::Full),
                sweep(2, Level::Full),
                skel(Level::Full),
                sweep0(2, Level::Full),
                sweep0(3, Level::Medium),
                sweep(3, Level::Full),
                sweep(4, Level::Medium),
                sweep(5, Level::Core),
                sweep(2, Level::Mixed),
                sweep(3, Level::Mixed),
                sweep(4, Level::Mixed),
            ],
        }
    }
    fn meta(&self, tier: Tier) -> Meta {
        Meta {
            bound: match tier {
                Tier::Quick => "all programs of N statements in every composition over lines 10,20,..: N<=2 over the full alphabet, N=3 over the medium alphabet, N=4 over the control-transfer core, N<=3 over the mixed-feature alphabet (control flow + DATA/READ/RESTORE, DEF FN and calls, arrays, strings, SWAP, CLEAR, ERASE, INPUT; 32 statements); each in three modes (RUN, TRON+RUN, last line as a direct statement list over the rest) and with every reply script over {0,1,2,3} up to two INPUTs".into(),
                Tier::Thorough => "as quick with N<=3 over the full alphabet, N=4 over the medium alphabet, N=5 over the core, N=4 over the mixed-feature alphabet".into(),
            },
            rule: "a case is (program, mode, reply script); distinct_nontrivial = distinct reference transcripts among cases whose reference run took at least one conditional branch, loop test or computed jump".into(),
            states_note: "transitions = reference-interpreter statement steps (counter ref_steps); every case is one implementation trace compared with the model trace".into(),
            assumptions: vec![
                "reference semantics: DESIGN.md §2.2 (written from src/doc and the property statement)".into(),
                format!("diverging programs: reference runs {} statements, implementation {} slices of 16 instructions; compared on the reference's prefix", S, 4 * S + 64),
                "TRON traces a line when the line of the next statement differs from the last traced line; lines without executable code are never traced (programs ending in such a line under TRON are skipped as undefined)".into(),
            ],
        }
    }
}
