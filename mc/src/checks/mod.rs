//! One module per property: alphabet, bound per tier, oracle, classifier.

use crate::engine::{Sweep, Tier};

pub struct Meta {
    pub bound: String,
    pub rule: String,
    pub states_note: String,
    pub assumptions: Vec<String>,
}

pub trait Check {
    fn id(&self) -> &'static str;
    fn sweeps(&self, tier: Tier) -> Vec<Box<dyn Sweep>>;
    fn meta(&self, tier: Tier) -> Meta;
}

pub mod c01;
pub mod c02;
pub mod c03;
pub mod c04;
pub mod c05;
pub mod c06;
pub mod c07;
pub mod c08;
pub mod c09;
pub mod both;
pub mod c10;
pub mod c11;
pub mod c12;
pub mod c13;
pub mod c14;
pub mod c15;
pub mod c16;
pub mod c17;
pub mod c18;
pub mod c19;
pub mod c20;
pub mod common;
pub mod progspace;

pub fn all() -> Vec<Box<dyn Check>> {
    vec![
        Box::new(c01::C01),
        Box::new(c02::C02),
        Box::new(c03::C03),
        Box::new(c04::C04),
        Box::new(c05::C05),
        Box::new(c06::C06),
        Box::new(c07::C07),
        Box::new(c08::C08),
        Box::new(c09::C09),
        Box::new(c10::C10),
        Box::new(c11::C11),
        Box::new(c12::C12),
        Box::new(c13::C13),
        Box::new(c14::C14),
        Box::new(c15::C15),
        Box::new(c16::C16),
        Box::new(c17::C17),
        Box::new(c18::C18),
        Box::new(c19::C19),
        Box::new(c20::C20),
    ]
}

pub fn get(id: &str) -> Option<Box<dyn Check>> {
    all().into_iter().find(|c| c.id() == id)
}

pub fn ids() -> Vec<&'static str> {
    all().iter().map(|c| c.id()).collect()
}

/// Small fixed buffer to format an implementation error without allocating.
pub struct Buf {
    pub b: [u8; 96],
    pub n: usize,
}

impl Buf {
    pub fn new() -> Buf {
        Buf { b: [0; 96], n: 0 }
    }
    pub fn as_str(&self) -> &str {
        std::str::from_utf8(&self.b[..self.n]).unwrap_or("")
    }
}

impl std::fmt::Write for Buf {
    fn write_str(&mut self, s: &str) -> std::fmt::Result {
        let bytes = s.as_bytes();
        let k = bytes.len().min(self.b.len() - self.n);
        self.b[self.n..self.n + k].copy_from_slice(&bytes[..k]);
        self.n += k;
        Ok(())
    }
}

/// Error code text ("OVERFLOW", "DIVISION BY ZERO", ...) of an implementation error.
pub fn err_code(e: &basic::lang::Error) -> String {
    crate::driver::parse_error(&e.to_string()).code
}
