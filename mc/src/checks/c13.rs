//! C13 — interrupt, STOP and END are transparent under CONT; slicing does not matter.
//!
//! For every program of a bounded family the baseline run (one instruction per
//! execute call) is compared with: an interrupt after every k-th call followed
//! by CONT (with and without a direct-mode inspection in between, including
//! interrupts at a pending INPUT prompt), a STOP and an END inserted before
//! every statement followed by CONT, every uniform quantum, two-phase and short
//! mixed schedules, and macro-step confluence on the full state digest.

use super::c01::render_impl;
use super::progspace::{Level, ProgSweep};
use super::{Check, Meta};
use crate::driver::{Ev, Session, Status};
use crate::engine::{guard, hash64, Ctx, Sweep, Tier};
use crate::gen::*;

pub struct C13;

const MAXCALLS: usize = 600;

fn replies() -> Vec<String> {
    ["1", "2", "0", "3", "1,2", "x", "7", "1", "2", "0", "3"].iter().map(|s| s.to_string()).collect()
}

/// Drop READY markers and the newline forced by an error message.
fn normalize_plain(text: &str) -> String {
    let t = text.replace("\u{1}NL-READY\u{2}", "").replace("\u{1}READY\u{2}", "");
    // the newline an error message forces depends on the column, which a BREAK
    // legitimately resets: not compared (on both sides alike)
    t.replace("\n\u{1}?", "\u{1}?")
}

/// As `normalize_plain`, and collapse an immediately repeated INPUT prompt.
fn normalize(text: &str) -> String {
    let mut t = normalize_plain(text);
    // a prompt pending at the interrupt may be re-issued once
    loop {
        let mut changed = false;
        if let Some(i) = t.find("\u{1}INPUT:") {
            let mut pos = i;
            while let Some(j) = t[pos..].find("\u{1}INPUT:") {
                let start = pos + j;
                let end = start + t[start..].find('\u{2}').unwrap_or(0) + '\u{2}'.len_utf8();
                let ev = t[start..end].to_string();
                if t[end..].starts_with(&ev) {
                    t.replace_range(end..end + ev.len(), "");
                    changed = true;
                }
                pos = end;
                if pos >= t.len() {
                    break;
                }
            }
        }
        if !changed {
            break;
        }
    }
    t
}

fn remove_break(part: &[Ev]) -> Vec<Ev> {
    // the BREAK event and the newline it forces
    let mut out: Vec<Ev> = vec![];
    for e in part {
        if let Ev::Err(v) = e {
            if v.len() == 1 && v[0].code == "BREAK" {
                if let Some(Ev::Out(t)) = out.last() {
                    if t == "\n" {
                        out.pop();
                    }
                }
                continue;
            }
        }
        out.push(e.clone());
    }
    out
}

struct Base {
    text: String,
    norm: String,
    vars: String,
    calls: usize,
    cut: bool,
}

fn var_probe(p: &Prog) -> String {
    let _ = p;
    "PRINT I;J;K;A$;B%;C#;D(1);E$(2)".to_string()
}

fn new_session(lines: &[String], q: usize) -> Session {
    let mut s = Session::with(q, MAXCALLS);
    for l in lines {
        s.enter(l);
    }
    s.take();
    s.replies = replies().into_iter().collect();
    s
}

fn baseline(lines: &[String], probe: &str) -> Result<Base, String> {
    guard(|| {
        let mut s = new_session(lines, 1);
        s.calls = 0;
        let st = s.enter("RUN");
        let calls = s.calls as usize;
        let ev = s.take();
        let (text, cut) = render_impl(&ev);
        s.quantum = 5000;
        s.enter(probe);
        let (vars, _) = render_impl(&s.take());
        Base { norm: normalize(&text), text, vars, calls, cut: cut || st != Status::Stopped }
    })
}

/// Interrupt after the k-th execute(1) call (at the pending prompt if that call
/// asked for input), then CONT.
fn interrupted(lines: &[String], k: usize, inspect: u8, probe: &str) -> Result<Option<(String, String)>, String> {
    guard(|| {
        let mut s = new_session(lines, 1);
        s.hold_input = true;
        s.rt.enter("RUN");
        let mut at_prompt = false;
        for call in 0..k {
            match s.step() {
                Some(Status::Stopped) => return None,
                Some(Status::AwaitInput) => {
                    if call + 1 == k {
                        at_prompt = true;
                    } else {
                        match s.replies.pop_front() {
                            Some(r) => {
                                s.rt.enter(&r);
                            }
                            None => return None,
                        }
                    }
                }
                _ => {}
            }
        }
        let _ = at_prompt;
        if !s.rt.verif_in_program() {
            return None;
        }
        s.hold_input = false;
        let mut all = s.take();
        // a program that has already reported its terminating error is not running
        if all.iter().any(|e| matches!(e, Ev::Err(v) if v.iter().any(|x| x.code != "REDO FROM START"))) {
            return None;
        }
        s.rt.interrupt();
        s.drain();
        all.extend(remove_break(&s.take()));
        if inspect == 3 {
            // the slicing changes at the interruption: CONT and what follows run in long calls
            s.quantum = 5000;
        } else if inspect > 0 {
            // 1: a direct statement that runs; 2: a mistyped one that is refused with a syntax error
            s.quantum = 5000;
            s.enter(if inspect == 1 { "PRINT I" } else { "PRINT )" });
            s.take();
            s.quantum = 1;
        }
        s.enter("CONT");
        all.extend(s.take());
        // merge adjacent Out events created by the splits
        let (text, cut) = render_impl(&all);
        if cut {
            return None;
        }
        s.quantum = 5000;
        s.enter(probe);
        let (vars, _) = render_impl(&s.take());
        Some((normalize(&text), vars))
    })
}

/// Insert `what` before the statement with pre-order index `at`; returns None when out of range.
fn insert_before(p: &Prog, at: usize, what: &Stmt) -> Option<Prog> {
    fn walk(v: &mut Vec<Stmt>, k: &mut usize, at: usize, what: &Stmt) -> bool {
        let mut i = 0;
        while i < v.len() {
            if *k == at {
                v.insert(i, what.clone());
                return true;
            }
            *k += 1;
            let done = match &mut v[i] {
                Stmt::If(_, t, e) => {
                    let mut d = false;
                    if let Branch::Stmts(tv) = t {
                        d = walk(tv, k, at, what);
                    }
                    if !d {
                        if let Some(Branch::Stmts(ev)) = e {
                            d = walk(ev, k, at, what);
                        }
                    }
                    d
                }
                Stmt::IfGoto(_, _, Some(Branch::Stmts(ev))) => walk(ev, k, at, what),
                _ => false,
            };
            if done {
                return true;
            }
            i += 1;
        }
        // and behind the last statement of the list: the end of a THEN part
        // (an ELSE may follow), of an ELSE part, of the line
        if *k == at {
            v.push(what.clone());
            return true;
        }
        *k += 1;
        false
    }
    let mut q = p.clone();
    let mut k = 0;
    for l in q.lines.iter_mut() {
        if walk(&mut l.stmts, &mut k, at, what) {
            return Some(q);
        }
    }
    None
}

/// Run, and CONT after every stop, until the program really ends. Returns the
/// transcript of each RUN/CONT part and the final variables.
fn run_with_conts(lines: &[String], probe: &str) -> Result<Option<(Vec<String>, String)>, String> {
    guard(|| {
        let mut s = new_session(lines, 5000);
        s.max_calls = 200;
        let mut parts: Vec<String> = vec![];
        s.enter("RUN");
        for _ in 0..80 {
            let part = s.take();
            if part.iter().any(|e| matches!(e, Ev::Cut)) {
                return None;
            }
            parts.push(render_impl(&part).0);
            // a run that ended in an error is over: CONT after an error is not part of this property
            if part.iter().any(|e| matches!(e, Ev::Err(v) if v.iter().any(|x| x.code != "BREAK" && x.code != "REDO FROM START"))) {
                s.enter(probe);
                let (vars, _) = render_impl(&s.take());
                return Some((parts, vars));
            }
            s.enter("CONT");
            // finished when CONT cannot continue
            if s.ev.iter().any(|e| matches!(e, Ev::Err(v) if v.len() == 1 && v[0].code == "CAN'T CONTINUE")) {
                s.take();
                s.enter(probe);
                let (vars, _) = render_impl(&s.take());
                return Some((parts, vars));
            }
        }
        None
    })
}

/// Does the baseline text equal the concatenation of the segments, where a
/// segment that ended in a STOP may carry one forced newline at its end?
fn matches_segments(base: &str, segs: &[String]) -> bool {
    if segs.is_empty() {
        return base.is_empty();
    }
    let seg = &segs[0];
    if segs.len() == 1 {
        return base == seg;
    }
    if let Some(rest) = base.strip_prefix(seg.as_str()) {
        if matches_segments(rest, &segs[1..]) {
            return true;
        }
    }
    if let Some(short) = seg.strip_suffix('\n') {
        if let Some(rest) = base.strip_prefix(short) {
            return matches_segments(rest, &segs[1..]);
        }
    }
    false
}

fn strip_break_markers(t: &str) -> String {
    let mut out = String::new();
    let mut rest = t;
    while let Some(i) = rest.find("\u{1}?BREAK") {
        out.push_str(&rest[..i]);
        let tail = &rest[i..];
        let end = tail.find('\u{2}').map(|e| e + '\u{2}'.len_utf8()).unwrap_or(tail.len());
        rest = &tail[end..];
    }
    out.push_str(rest);
    out
}

fn with_schedule(lines: &[String], sched: &[usize], then: usize) -> Result<(String, bool), String> {
    guard(|| {
        let mut s = new_session(lines, 1);
        s.rt.enter("RUN");
        let mut i = 0;
        loop {
            s.quantum = if i < sched.len() { sched[i] } else { then };
            i += 1;
            if i > MAXCALLS * 2 {
                return (String::new(), true);
            }
            match s.step() {
                Some(Status::Stopped) => break,
                Some(Status::AwaitInput) => return (String::new(), true),
                _ => {}
            }
        }
        render_impl(&s.take())
    })
}

/// (event text, digest) after running from macro-state m with quantum q to the
/// next non-Running event.
fn macro_step(lines: &[String], m: usize, q: usize) -> Result<Option<(String, String)>, String> {
    guard(|| {
        let mut s = new_session(lines, 1);
        s.rt.enter("RUN");
        let mut seen = 0;
        let mut guard_n = 0;
        // reach macro-state m with the canonical quantum 1
        while seen < m {
            let before = s.ev.len();
            let before_txt = crate::driver::render(&s.ev).len();
            match s.step() {
                Some(Status::Stopped) | Some(Status::AwaitInput) => return None,
                _ => {}
            }
            if s.ev.len() != before || crate::driver::render(&s.ev).len() != before_txt {
                seen += 1;
            }
            guard_n += 1;
            if guard_n > MAXCALLS {
                return None;
            }
        }
        s.take();
        s.quantum = q;
        for _ in 0..MAXCALLS {
            let r = s.step();
            if !s.ev.is_empty() || r.is_some() {
                let d = s.rt.verif_digest();
                return Some((crate::driver::render(&s.take()), d));
            }
        }
        None
    })
}

#[derive(Clone, Copy)]
struct Depth {
    k_all: bool,
    sched_len: usize,
    macro_steps: bool,
}

fn judge_prog(p: &Prog, d: Depth, ctx: &mut Ctx) {
    let lines = p.render();
    let probe = var_probe(p);
    let text = p.text();
    let mut base: Option<Base> = None;
    macro_rules! base {
        () => {{
            if base.is_none() {
                match baseline(&lines, &probe) {
                    Ok(b) => base = Some(b),
                    Err(_) => {
                        ctx.skip("baseline panics (C03's business)");
                        return;
                    }
                }
            }
            base.as_ref().unwrap()
        }};
    }
    // the number of cases depends on the baseline length, which is itself a
    // property of the implementation: enumerate a fixed k range and skip
    // beyond the end, so that sequence numbers are stable
    let has_tron = text.contains("TRON");
    let kmax = if d.k_all { 160 } else { 40 };
    for k in 1..=kmax {
        for mode in [0u8, 1, 2, 3] {
            if mode == 2 && k > 16 {
                continue;
            }
            let inspect = mode == 1 || mode == 2;
            if !ctx.begin(&format!("{} ; interrupt after {} single-instruction calls{}, CONT", text, k, ["", ", PRINT I", ", a mistyped direct line", ", the rest in 5000-instruction calls"][mode as usize])) {
                continue;
            }
            if has_tron {
                // the trace re-announces the current line after CONT (every entered line resets it)
                ctx.skip("program uses TRON: trace after CONT not compared");
                continue;
            }
            let b = base!();
            if b.cut {
                ctx.skip("program does not terminate within the budget");
                continue;
            }
            if k > b.calls {
                ctx.acc.evals -= 1;
                continue;
            }
            match interrupted(&lines, k, mode, &probe) {
                Err(pn) => ctx.violation("interrupt-cont/panic", pn),
                Ok(None) => {
                    ctx.acc.evals -= 1;
                }
                Ok(Some((t, v))) => {
                    ctx.nontrivial(hash64(&(k, &b.norm)));
                    if t != b.norm {
                        ctx.violation(
                            if inspect { "interrupt-inspect-cont/output-differs" } else { "interrupt-cont/output-differs" },
                            format!("uninterrupted {:?}, interrupted+CONT {:?}", b.norm, t),
                        );
                    } else if v != b.vars {
                        ctx.violation(
                            if inspect { "interrupt-inspect-cont/variables-differ" } else { "interrupt-cont/variables-differ" },
                            format!("uninterrupted {:?}, interrupted+CONT {:?}", b.vars, v),
                        );
                    }
                    ctx.sample();
                }
            }
        }
    }
    // STOP / END before every statement
    let lists_itself = text.contains("LIST");
    for at in 0..24 {
        for (nm, what) in [("STOP", Stmt::Stop), ("END", Stmt::End)] {
            if !ctx.begin(&format!("{} ; {} inserted before statement #{}, CONT after every stop", text, nm, at)) {
                continue;
            }
            let q = match insert_before(p, at, &what) {
                Some(q) => q,
                None => {
                    ctx.acc.evals -= 1;
                    continue;
                }
            };
            if has_tron {
                // the trace re-announces the current line after CONT (every entered line resets it)
                ctx.skip("program uses TRON: trace after CONT not compared");
                continue;
            }
            let b = base!();
            if b.cut {
                ctx.skip("program does not terminate within the budget");
                continue;
            }
            if b.text.contains("COMPILE-ERRORS") {
                ctx.acc.evals -= 1;
                continue;
            }
            // the original may itself stop (STOP/END statements, errors): run it with CONTs too
            if nm == "STOP" && super::c20::prog_contains(p, &|s| matches!(s, Stmt::Stop)) {
                ctx.acc.evals -= 1;
                continue;
            }
            let orig = run_with_conts(&lines, &probe);
            let got = run_with_conts(&q.render(), &probe);
            match (orig, got) {
                (Ok(Some(o)), Ok(Some(mut g))) => {
                    if lists_itself {
                        // a program that LISTs itself shows the inserted statement: take it out of the listed text
                        for t in g.0.iter_mut() {
                            *t = t.replace(&format!("{}:", nm), "").replace(&format!(":{}", nm), "");
                        }
                    }
                    let otext = normalize_plain(&o.0.concat());
                    ctx.nontrivial(hash64(&(nm, at, &otext)));
                    let same = if nm == "END" {
                        otext == normalize_plain(&g.0.concat())
                    } else {
                        // STOP: each part before a BREAK may end in one forced newline
                        let segs: Vec<String> = g.0.iter().map(|t| normalize_plain(&strip_break_markers(t))).collect();
                        matches_segments(&otext, &segs)
                    };
                    if !same || o.1 != g.1 {
                        ctx.violation(
                            &format!("{}-cont/differs", nm.to_lowercase()),
                            format!("without {}: {:?} {:?}; with {} and CONT: {:?} {:?}  [{}]", nm, o.0, o.1, nm, g.0, g.1, q.text()),
                        );
                    }
                }
                (Err(pn), _) | (_, Err(pn)) => ctx.violation(&format!("{}-cont/panic", nm.to_lowercase()), pn),
                _ => ctx.skip("run with CONTs does not finish within the budget"),
            }
        }
    }
    // quanta
    let mut scheds: Vec<(Vec<usize>, usize)> = vec![];
    for q in 2..=48 {
        scheds.push((vec![], q));
    }
    scheds.push((vec![], 5000));
    for q1 in [1usize, 2, 3, 7, 5000] {
        for q2 in [1usize, 2, 3, 7, 5000] {
            if q1 == q2 {
                continue;
            }
            for j in 1..=12 {
                scheds.push((vec![q1; j], q2));
            }
        }
    }
    let mut seqs: Vec<Vec<usize>> = vec![vec![]];
    for _ in 0..d.sched_len {
        let mut nx = vec![];
        for s in &seqs {
            for q in [1usize, 2, 3] {
                let mut t = s.clone();
                t.push(q);
                nx.push(t);
            }
        }
        for s in &nx {
            scheds.push((s.clone(), 5000));
        }
        seqs = nx;
    }
    for (sched, then) in scheds {
        if !ctx.begin(&format!("{} ; execute quanta {:?} then {}", text, sched, then)) {
            continue;
        }
        let b = base!();
        if b.cut {
            ctx.skip("program does not terminate within the budget");
            continue;
        }
        match with_schedule(&lines, &sched, then) {
            Err(pn) => ctx.violation("quantum/panic", pn),
            Ok((t, cut)) => {
                ctx.nontrivial(hash64(&(&sched, then, &b.text)));
                if cut || t != b.text {
                    ctx.violation("quantum/transcript-differs", format!("quantum 1 gave {:?}, this schedule {:?}", b.text, t));
                }
            }
        }
    }
    if d.macro_steps {
        for m in 0..30 {
            if !ctx.begin(&format!("{} ; macro-step {} under quanta 1,2,3,5,8,5000: same event and state digest", text, m)) {
                continue;
            }
            let b = base!();
            if b.cut {
                ctx.skip("program does not terminate within the budget");
                continue;
            }
            let first = macro_step(&lines, m, 1);
            match first {
                Ok(None) => {
                    ctx.acc.evals -= 1;
                    continue;
                }
                Err(pn) => {
                    ctx.violation("macro-step/panic", pn);
                    continue;
                }
                Ok(Some(f)) => {
                    ctx.acc.states.insert(hash64(&f.1));
                    ctx.acc.transitions += 6;
                    for q in [2usize, 3, 5, 8, 5000] {
                        match macro_step(&lines, m, q) {
                            Ok(Some(g)) => {
                                if g != f {
                                    ctx.violation(
                                        "macro-step/state-or-event-differs",
                                        format!("quantum 1: {:?}; quantum {}: {:?}", f.0, q, g.0),
                                    );
                                }
                            }
                            Ok(None) => ctx.violation("macro-step/no-event", format!("quantum {} reaches no event", q)),
                            Err(pn) => ctx.violation("macro-step/panic", pn),
                        }
                    }
                }
            }
        }
    }
}

fn judge(d: Depth) -> impl Fn(&Prog, &mut Ctx) + Sync + Send {
    move |p: &Prog, ctx: &mut Ctx| judge_prog(p, d, ctx)
}

/// Curated programs: INPUT (several variables), DEF FN, READ/DATA, strings,
/// arrays, nested loops, subroutines, WHILE.
pub fn curated() -> Vec<Vec<&'static str>> {
    vec![
        vec!["10 FOR I=1 TO 3:FOR J=1 TO 2:PRINT I*J;:NEXT J,I", "20 PRINT \"e\""],
        vec!["10 INPUT I,J", "20 PRINT I+J", "30 INPUT \"q\";A$", "40 PRINT A$+\"!\""],
        vec!["10 DEF FNA(X)=X*2+I", "20 I=1:PRINT FNA(3);FNA(FNA(1))", "30 K=FNA(I)"],
        vec!["10 READ I,A$,C#", "20 PRINT I;A$;C#", "30 RESTORE 50:READ J:PRINT J", "40 DATA 1,\"s\",2.5", "50 DATA 9"],
        vec!["10 A$=\"\":FOR I=1 TO 4:A$=A$+CHR$(64+I):NEXT", "20 PRINT A$;LEN(A$);MID$(A$,2,2)", "30 MID$(A$,2)=\"xy\":PRINT A$"],
        vec!["10 DIM D(3),E$(2)", "20 FOR I=0 TO 3:D(I)=I*I:NEXT", "30 E$(2)=\"z\":PRINT D(1);D(3);E$(2)", "40 SWAP D(1),D(3):PRINT D(1)"],
        vec!["10 GOSUB 100:GOSUB 100:PRINT \"m\"", "20 END", "100 I=I+1:IF I<2 THEN GOSUB 200", "110 PRINT \"s\";I:RETURN", "200 PRINT \"t\":RETURN"],
        vec!["10 I=0", "20 WHILE I<3:I=I+1:IF I=2 THEN PRINT \"two\" ELSE PRINT I", "30 WEND", "40 PRINT \"d\""],
        vec!["10 ON I+1 GOSUB 100,200", "20 I=I+1:IF I<3 THEN 10", "30 END", "100 PRINT \"a\";:RETURN", "200 PRINT \"b\";:RETURN"],
        vec!["10 B%=32000:C#=1/3", "20 B%=B%+700", "30 PRINT B%;C#", "40 B%=B%+700"],
        vec!["10 TRON:FOR I=1 TO 2", "20 PRINT I", "30 NEXT:TROFF", "40 PRINT \"x\""],
        vec!["10 INPUT I", "20 IF I THEN INPUT J,K:PRINT I;J;K", "30 PRINT \"end\""],
        vec!["10 FOR I=1 TO 4:READ X:S=S+X:NEXT:PRINT \"sum\";S", "20 DATA 1,2", "30 DATA 3,4"],
        vec!["10 PRINT \"a\";:LIST 20-30:PRINT \"b\"", "20 REM x", "30 REM y", "40 LIST:PRINT \"c\""],
        vec!["10 A$=INKEY$:B$=INKEY$+\"k\":PRINT A$;B$", "20 FOR I=1 TO 2:C$=C$+INKEY$+\"z\":NEXT:PRINT C$"],
        vec!["10 DIM D(3):FOR I=0 TO 3:D(I)=I*I:NEXT", "20 GOSUB 50:PRINT \"r\";K", "30 END", "50 FOR J=1 TO 2:K=K+D(J):IF J=2 THEN RETURN", "60 NEXT"],
    ]
}

struct Curated {
    d: Depth,
}

impl Sweep for Curated {
    fn name(&self) -> String {
        "curated-programs".into()
    }
    fn shards(&self) -> usize {
        curated().len()
    }
    fn run_shard(&self, shard: usize, ctx: &mut Ctx) {
        let lines = curated()[shard].clone();
        // wrap the text as Raw statements so that the same judge applies
        let p = Prog {
            lines: lines
                .iter()
                .map(|l| {
                    let (n, rest) = l.split_once(' ').unwrap();
                    Line { num: n.parse().unwrap(), stmts: vec![Stmt::Raw(rest.to_string())] }
                })
                .collect(),
        };
        judge_prog(&p, self.d, ctx);
    }
}

fn psweep(n: usize, level: Level, d: Depth) -> Box<dyn Sweep> {
    Box::new(ProgSweep { label: "programs".into(), n, level, judge: Box::new(judge(d)), verdict_on_crash: false })
}

impl Check for C13 {
    fn id(&self) -> &'static str {
        "C13"
    }
    fn sweeps(&self, tier: Tier) -> Vec<Box<dyn Sweep>> {
        let deep = Depth { k_all: true, sched_len: 6, macro_steps: true };
        let mid = Depth { k_all: true, sched_len: 3, macro_steps: true };
        let light = Depth { k_all: false, sched_len: 2, macro_steps: false };
        match tier {
            Tier::Quick => vec![
                Box::new(Curated { d: mid }),
                psweep(1, Level::Full, mid),
                psweep(2, Level::Medium, light),
                psweep(3, Level::Core, light),
                psweep(2, Level::Mixed, light),
            ],
            Tier::Thorough => vec![
                Box::new(Curated { d: deep }),
                psweep(1, Level::Full, deep),
                psweep(2, Level::Full, mid),
                psweep(3, Level::Medium, light),
                psweep(4, Level::Core, light),
                psweep(2, Level::Mixed, mid),
                psweep(3, Level::Mixed, light),
            ],
        }
    }
    fn meta(&self, tier: Tier) -> Meta {
        Meta {
            bound: match tier {
                Tier::Quick => "16 curated programs (INPUT, INKEY$, LIST inside the program, READ/DATA in a loop, GOSUB out of a loop, ...) and all N=1 programs (full alphabet): interrupt after every k-th single-instruction call (k<=160, also at a pending prompt) with and without a direct PRINT before CONT, and with CONT and the rest of the run in 5000-instruction calls, STOP and END before every statement, uniform quanta 2..48 and 5000, all two-phase schedules over {1,2,3,7,5000} with switch points 1..12, all mixed schedules over {1,2,3} of length <=3, macro-step confluence on the state digest for quanta {1,2,3,5,8,5000}; N=2 medium, N=3 core and N=2 mixed-feature (DATA/READ/RESTORE, DEF FN, arrays, strings, SWAP, CLEAR, ERASE, INPUT) programs with k<=40 and mixed schedules of length <=2".into(),
                Tier::Thorough => "as quick with mixed schedules up to length 6 on curated and N=1, N=2 full with length 3 and macro-steps, N=3 medium and N=4 core light, N=2 mixed-feature with length 3 and macro-steps, N=3 mixed-feature light".into(),
            },
            rule: "a case is (program, interruption point | STOP/END placement | quantum schedule | macro-step); distinct_nontrivial = distinct (perturbation, baseline transcript) pairs; cases beyond the end of a program's run are not counted".into(),
            states_note: "states = distinct full-state digests reached at macro-step boundaries; transitions = macro-steps executed under the six quanta (differential, implementation vs implementation)".into(),
            assumptions: vec![
                "an interrupt is judged only when the program counter is inside the stored program (hook verif_in_program), as the property's precondition says".into(),
                "the BREAK event, the newline it forces, READY prompts and one re-issued INPUT prompt are removed before comparing".into(),
                "final variable state is observed through a direct PRINT of a fixed variable list".into(),
                "programs that do not terminate within 600 single-instruction calls are skipped and counted".into(),
            ],
        }
    }
}
