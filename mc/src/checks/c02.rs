//! C02 — expressions evaluate per documented precedence, promotion and result types.
//! (1) operator x type matrix over boundary values through the public
//! Operation/Function entry points (result variant = result type) and through
//! the interpreter with two type probes; (2) every operator pair / triple in
//! every tree shape, rendered with minimal and with full parentheses;
//! (3) every short literal spelling, typed per the manual's rules, observed in
//! the parsed statement; (4) numeric functions; (5) assignment conversion.

use super::{Check, Meta};
use crate::driver::{Ev, Session};
use crate::engine::{guard, hash64, Ctx, Sweep, Tier};
use crate::gen::{bin, Expr};
use crate::refmodel::funcs;
use crate::refmodel::print::check_number_text;
use crate::refmodel::value::*;
use basic::mach::{Function, Operation, Val};

pub struct C02;

/// tolerance for inexact operations (^ by repeated multiplication up to
/// exponent 255 accumulates about one ulp per step; transcendental functions
/// are within a few ulp of the harness's own libm result)
const ULPS: u64 = 600;

pub fn to_val(v: &V) -> Val {
    match v {
        V::Int(n) => Val::Integer(*n),
        V::Sng(n) => Val::Single(*n),
        V::Dbl(n) => Val::Double(*n),
        V::Str(s) => Val::String(s.iter().collect::<String>().into()),
    }
}

pub fn from_val(v: &Val) -> Option<V> {
    match v {
        Val::Integer(n) => Some(V::Int(*n)),
        Val::Single(n) => Some(V::Sng(*n)),
        Val::Double(n) => Some(V::Dbl(*n)),
        Val::String(s) => Some(V::Str(s.chars().collect())),
        _ => None,
    }
}

fn ints() -> Vec<V> {
    [0i16, 1, -1, 2, 7, -7, 255, 256, 32767, -32767, -32768, 3].iter().map(|n| V::Int(*n)).collect()
}
fn sngs() -> Vec<V> {
    [0.0f32, 0.5, -0.5, 1.5, -2.5, 2.0, 16777216.0, 32767.5, 32768.0, -32768.5, 3.4e38, 1e-38, 3.0, f32::INFINITY, f32::NEG_INFINITY]
        .iter()
        .map(|n| V::Sng(*n))
        .collect()
}
fn dbls() -> Vec<V> {
    // (the last four sit next to a whole number by less than Single precision resolves)
    [0.0f64, 0.5, -0.5, 1.5, -2.5, 2.0, 16777216.0, 32767.5, 32768.0, -32768.5, 3.4e38, 1e-38, 1e300, 0.1, 3.0, 2.99999999, 99.9999999, 32767.9999, -32768.00001, f64::INFINITY]
        .iter()
        .map(|n| V::Dbl(*n))
        .collect()
}
fn strs() -> Vec<V> {
    ["", "A", "B", "é"].iter().map(|s| V::s(s)).collect()
}
fn values() -> Vec<V> {
    let mut v = ints();
    v.extend(sngs());
    v.extend(dbls());
    v.extend(strs());
    v
}

/// BASIC source that evaluates to exactly this value and type.
pub fn src(v: &V) -> String {
    match v {
        V::Int(n) => {
            if *n == i16::MIN {
                "(-32767-1)".to_string()
            } else if *n < 0 {
                format!("({}%)", n).replace("(-", "(-").replace('%', "%")
            } else {
                format!("{}%", n)
            }
        }
        V::Sng(n) if n.is_infinite() => (if *n > 0.0 { "(3E38!*10%)" } else { "(-3E38!*10%)" }).to_string(),
        V::Dbl(n) if n.is_infinite() => (if *n > 0.0 { "(1D308#*10%)" } else { "(-1D308#*10%)" }).to_string(),
        V::Sng(n) => {
            if *n < 0.0 {
                format!("(-{:E}!)", -n).replace("E", "E").replace("!)", "!)")
            } else {
                format!("{:E}!", n)
            }
        }
        V::Dbl(n) => {
            if *n < 0.0 {
                format!("(-{}#)", format!("{:E}", -n).replace('E', "D"))
            } else {
                format!("{}#", format!("{:E}", n).replace('E', "D"))
            }
        }
        V::Str(s) => format!("\"{}\"", s.iter().collect::<String>()),
    }
}

fn api_bin(op: BinOp, a: Val, b: Val) -> Result<Val, basic::lang::Error> {
    match op {
        BinOp::Pow => Operation::power(a, b),
        BinOp::Mul => Operation::multiply(a, b),
        BinOp::Div => Operation::divide(a, b),
        BinOp::DivInt => Operation::divint(a, b),
        BinOp::Mod => Operation::remainder(a, b),
        BinOp::Add => Operation::sum(a, b),
        BinOp::Sub => Operation::subtract(a, b),
        BinOp::Eq => Operation::equal(a, b),
        BinOp::Ne => Operation::not_equal(a, b),
        BinOp::Lt => Operation::less(a, b),
        BinOp::Le => Operation::less_equal(a, b),
        BinOp::Gt => Operation::greater(a, b),
        BinOp::Ge => Operation::greater_equal(a, b),
        BinOp::And => Operation::and(a, b),
        BinOp::Or => Operation::or(a, b),
        BinOp::Xor => Operation::xor(a, b),
        BinOp::Imp => Operation::imp(a, b),
        BinOp::Eqv => Operation::eqv(a, b),
    }
}

/// an inexact operation may flush a subnormal result to zero
fn underflow_ok(exp: &V, got: &V) -> bool {
    match (exp, got) {
        (V::Sng(e), V::Sng(g)) => e.abs() < f32::MIN_POSITIVE * 4.0 && (*g == 0.0 || g.abs() < f32::MIN_POSITIVE * 4.0),
        (V::Dbl(e), V::Dbl(g)) => e.abs() < f64::MIN_POSITIVE * 4.0 && (*g == 0.0 || g.abs() < f64::MIN_POSITIVE * 4.0),
        _ => false,
    }
}

/// compare an implementation result with the reference's: exact type; bit-exact
/// unless the operation is transcendental (4 ulp)
fn agree(exp: &Result<V, E>, got: &Result<Option<V>, String>, exact: bool) -> Option<String> {
    if let Err(c) = exp {
        if c.starts_with('#') {
            return None;
        }
    }
    match (exp, got) {
        (Ok(e), Ok(Some(g))) => {
            if e.ty() != g.ty() {
                return Some(format!("wrong-result-type-{:?}-for-{:?}", g.ty(), e.ty()));
            }
            if e.same_bits(g) {
                return None;
            }
            if !exact {
                if underflow_ok(e, g) {
                    return None;
                }
                if let Some(d) = ulp_diff(e, g) {
                    if d <= ULPS {
                        return None;
                    }
                }
                if let (Ok(x), Ok(y)) = (e.as_f64(), g.as_f64()) {
                    if (x.is_infinite() && y.is_infinite() && x.signum() == y.signum()) || (x.is_nan() && y.is_nan()) {
                        return None;
                    }
                }
            }
            Some("wrong-value".into())
        }
        (Ok(_), Ok(None)) => Some("non-value-result".into()),
        (Ok(_), Err(code)) => Some(format!("error-{}-for-valid-operands", code.replace(' ', "-"))),
        (Err(c), Ok(_)) => Some(format!("no-{}-error", c.replace(' ', "-"))),
        (Err(c), Err(g)) => {
            if c == g || c.starts_with('#') {
                None
            } else {
                Some(format!("error-{}-instead-of-{}", g.replace(' ', "-"), c.replace(' ', "-")))
            }
        }
    }
}

fn api_result(r: Result<Val, basic::lang::Error>) -> Result<Option<V>, String> {
    match r {
        Ok(v) => Ok(from_val(&v)),
        Err(e) => Err(super::err_code(&e)),
    }
}

/// What PRINT <expr> shows: Ok(number text / string) or Err(code)
pub fn vm_eval(line: &str) -> Result<Result<String, String>, String> {
    guard(|| {
        let mut s = Session::new();
        s.enter(line);
        let ev = s.take();
        for e in &ev {
            match e {
                Ev::Err(v) => return Err(v.first().map(|e| e.code.clone()).unwrap_or_default()),
                Ev::Out(t) => return Ok(t.clone()),
                _ => {}
            }
        }
        Ok(String::new())
    })
}

/// Judge the text printed for an expected value. Numbers: leading blank/minus,
/// trailing blank, reads back to the value in its type (4 ulp when inexact).
fn printed_agrees(exp: &V, text: &str, exact: bool) -> Result<(), String> {
    let t = text.strip_suffix('\n').unwrap_or(text);
    match exp {
        V::Str(s) => {
            if t == s.iter().collect::<String>() {
                Ok(())
            } else {
                Err(format!("printed {:?}", t))
            }
        }
        num => {
            let body = t.strip_suffix(' ').ok_or(format!("no trailing blank in {:?}", t))?;
            if exact {
                check_number_text(body, num)
            } else {
                // parse in the type and compare within 4 ulp
                let b = body.trim_start();
                let got = match num {
                    V::Int(_) => b.parse::<i16>().ok().map(V::Int),
                    V::Sng(_) => b.parse::<f32>().ok().map(V::Sng),
                    V::Dbl(_) => b.parse::<f64>().ok().map(V::Dbl),
                    _ => None,
                };
                match got {
                    Some(g) => {
                        if num.same_bits(&g)
                            || underflow_ok(num, &g) || ulp_diff(num, &g).map(|d| d <= ULPS).unwrap_or(false) || (num.as_f64().map(|x| x.is_nan()).unwrap_or(false) && b.eq_ignore_ascii_case("nan")) {
                            Ok(())
                        } else {
                            Err(format!("printed {:?} for {:?}", body, num))
                        }
                    }
                    None => Err(format!("printed {:?} for {:?}", body, num)),
                }
            }
        }
    }
}

fn judge_vm(site: &str, text: &str, exp: &Result<V, E>, exact: bool, probe_type: bool, ctx: &mut Ctx) {
    let line = format!("PRINT {}", text);
    if ctx.begin(&line) {
        match vm_eval(&line) {
            Err(p) => ctx.violation(&format!("{}/panic", site), p),
            Ok(r) => {
                let bad = match (exp, &r) {
                    (Ok(e), Ok(t)) => printed_agrees(e, t, exact).err().map(|d| ("wrong-value-printed".to_string(), d)),
                    (Ok(_), Err(c)) => Some((format!("error-{}-for-valid-operands", c.replace(' ', "-")), c.clone())),
                    (Err(c), Ok(t)) => {
                        if c.starts_with('#') {
                            None
                        } else {
                            Some((format!("no-{}-error", c.replace(' ', "-")), t.clone()))
                        }
                    }
                    (Err(c), Err(g)) => {
                        if c == g || c.starts_with('#') {
                            None
                        } else {
                            Some((format!("error-{}-instead-of-{}", g.replace(' ', "-"), c.replace(' ', "-")), g.clone()))
                        }
                    }
                };
                if let Some((class, d)) = bad {
                    ctx.violation(&format!("{}/{}", site, class), format!("{} : expected {:?}; {}", line, exp, d));
                }
            }
        }
    }
    // type probes: OVERFLOW on +32767+1 iff Integer; 16 threes iff Double
    if probe_type {
        let line = format!("PRINT ({})*0+32767+1:PRINT (({})*0+1)/3", text, text);
        if ctx.begin(&line) {
            if let Ok(e) = exp {
                if let Ok(f) = e.as_f64() {
                    if f.is_finite() {
                        let r = guard(|| {
                            let mut s = Session::new();
                            s.enter(&format!("PRINT ({})*0+32767+1", text));
                            let a = crate::driver::render_codes(&s.take());
                            s.enter(&format!("PRINT (({})*0+1)/3", text));
                            let b = crate::driver::render_codes(&s.take());
                            (a, b)
                        });
                        if let Ok((a, b)) = r {
                            let is_int = a.contains("OVERFLOW");
                            let is_dbl = b.contains("0.3333333333333333");
                            let ty = if is_int { Ty::Int } else if is_dbl { Ty::Dbl } else { Ty::Sng };
                            if ty != e.ty() {
                                ctx.violation(
                                    &format!("{}/wrong-result-type-{:?}-for-{:?}", site, ty, e.ty()),
                                    format!("{} : probes show {:?}, expected {:?} ({} | {})", text, ty, e.ty(), a, b),
                                );
                            }
                        }
                    }
                }
            }
        }
    }
}

// ------------------------------------------------------------------ (1) matrix

struct Matrix;

impl Sweep for Matrix {
    fn name(&self) -> String {
        "operator-type-matrix".into()
    }
    fn shards(&self) -> usize {
        values().len()
    }
    fn run_shard(&self, shard: usize, ctx: &mut Ctx) {
        let vals = values();
        let a = &vals[shard];
        // unary
        for (name, exp, text, r) in [
            ("negate", neg(a), format!("-{}", src(a)), guard(|| Operation::negate(to_val(a)))),
            ("not", not(a), format!("NOT {}", src(a)), guard(|| Operation::not(to_val(a)))),
        ] {
            if ctx.begin(&format!("API {}", text)) {
                match r {
                    Err(p) => ctx.violation(&format!("{}/panic", name), p),
                    Ok(r) => {
                        if let Some(class) = agree(&exp, &api_result(r), true) {
                            ctx.violation(&format!("{}/{}", name, class), format!("{} : expected {:?}", text, exp));
                        }
                    }
                }
                ctx.nontrivial(hash64(&(name, format!("{:?}", exp))));
            }
            judge_vm(name, &text, &exp, true, true, ctx);
        }
        judge_vm("unary-plus", &format!("+{}", src(a)), &(if matches!(a, V::Str(_)) { Err("#undefined: unary plus on a string") } else { Ok(a.clone()) }), true, true, ctx);
        for b in &vals {
            for op in ALL_BINOPS {
                let exp = binop(op, a, b);
                let ex = exact(op, a, b);
                let text = if op.is_word() { format!("{} {} {}", src(a), op.text(), src(b)) } else { format!("{}{}{}", src(a), op.text(), src(b)) };
                if ctx.begin(&format!("API {}", text)) {
                    match guard(|| api_bin(op, to_val(a), to_val(b))) {
                        Err(p) => ctx.violation(&format!("{}/panic", op.text()), p),
                        Ok(r) => {
                            if let Some(class) = agree(&exp, &api_result(r), ex) {
                                ctx.violation(&format!("{}/{}", op.text(), class), format!("{} : expected {:?}", text, exp));
                            }
                        }
                    }
                    ctx.nontrivial(hash64(&(op, a.ty(), b.ty(), format!("{:?}", exp))));
                }
                judge_vm(op.text(), &text, &exp, ex, true, ctx);
            }
            // whatever "equal" means for two near-equal floats, = and <> are complementary,
            // and so are < / >= and > / <=
            if !matches!(a, V::Str(_)) && !matches!(b, V::Str(_)) && ctx.begin(&format!("API complementarity of the relational operators on {} and {}", src(a), src(b))) {
                for (p, q) in [(BinOp::Eq, BinOp::Ne), (BinOp::Lt, BinOp::Ge), (BinOp::Gt, BinOp::Le)] {
                    let r = guard(|| (api_bin(p, to_val(a), to_val(b)), api_bin(q, to_val(a), to_val(b))));
                    match r {
                        Err(pn) => ctx.violation("relational/panic", pn),
                        Ok((Ok(x), Ok(y))) => {
                            let (x, y) = (from_val(&x), from_val(&y));
                            let one_true = matches!((&x, &y), (Some(V::Int(-1)), Some(V::Int(0))) | (Some(V::Int(0)), Some(V::Int(-1))));
                            let nan = match (a.as_f64(), b.as_f64()) {
                                (Ok(u), Ok(v)) => u.is_nan() || v.is_nan(),
                                _ => true,
                            };
                            if !one_true && !nan {
                                ctx.violation(
                                    &format!("{}-{}/not-complementary", p.text(), q.text()),
                                    format!("{} {} {} gives {:?} and {} gives {:?}", src(a), p.text(), src(b), x, q.text(), y),
                                );
                            }
                        }
                        Ok(_) => {}
                    }
                }
            }
        }
        ctx.sample();
    }
}

// ------------------------------------------------------------------ (1b) mirrored relations

/// `a >= b` and `b <= a` are the same statement, whatever the operands are: the
/// reference does not say what a comparison with not-a-number answers, but each
/// relational operator has to answer its mirror image's answer (and 0 or -1).
struct Mirror;

fn mirror_values() -> Vec<(V, String)> {
    let mut v: Vec<(V, String)> = Vec::new();
    v.push((V::Sng(f32::NAN), "(0%/0%)".into()));
    v.push((V::Dbl(f64::NAN), "(1D308#*10%-1D308#*10%)".into()));
    v.push((V::Sng(f32::NAN), "SQR(-1%)".into()));
    for x in [V::Int(0), V::Int(1), V::Int(-1), V::Int(32767), V::Sng(0.0), V::Sng(1.5), V::Sng(f32::INFINITY), V::Sng(f32::NEG_INFINITY), V::Dbl(0.0), V::Dbl(-2.5), V::Dbl(f64::INFINITY), V::Dbl(1e300)] {
        let s = src(&x);
        v.push((x, s));
    }
    v
}

impl Sweep for Mirror {
    fn name(&self) -> String {
        "relational-mirror".into()
    }
    fn shards(&self) -> usize {
        mirror_values().len()
    }
    fn run_shard(&self, shard: usize, ctx: &mut Ctx) {
        let vals = mirror_values();
        let (a, sa) = &vals[shard];
        let truth = |v: &Option<V>| matches!(v, Some(V::Int(0)) | Some(V::Int(-1)));
        for (b, sb) in &vals {
            for (p, q) in [(BinOp::Ge, BinOp::Le), (BinOp::Gt, BinOp::Lt), (BinOp::Le, BinOp::Ge), (BinOp::Lt, BinOp::Gt), (BinOp::Eq, BinOp::Eq), (BinOp::Ne, BinOp::Ne)] {
                if ctx.begin(&format!("API {} {} {} against {} {} {}", sa, p.text(), sb, sb, q.text(), sa)) {
                    match guard(|| (api_bin(p, to_val(a), to_val(b)), api_bin(q, to_val(b), to_val(a)))) {
                        Err(pn) => ctx.violation("mirror/panic", pn),
                        Ok((Ok(x), Ok(y))) => {
                            let (x, y) = (from_val(&x), from_val(&y));
                            if !truth(&x) || !truth(&y) {
                                ctx.violation(&format!("{}/not-0-or--1", p.text()), format!("{} {} {} gives {:?}, {} {} {} gives {:?}", sa, p.text(), sb, x, sb, q.text(), sa, y));
                            } else if x != y {
                                ctx.violation(&format!("{}-{}/mirror-disagrees", p.text(), q.text()), format!("{} {} {} gives {:?} but {} {} {} gives {:?}", sa, p.text(), sb, x, sb, q.text(), sa, y));
                            }
                            ctx.nontrivial(hash64(&(p, a.ty(), b.ty(), format!("{:?}", x))));
                        }
                        Ok((x, y)) => {
                            if x.is_ok() != y.is_ok() {
                                ctx.violation(&format!("{}-{}/mirror-disagrees", p.text(), q.text()), format!("{} {} {} and its mirror image: one is an error", sa, p.text(), sb));
                            }
                        }
                    }
                }
                // the same through the VM, directly and through variables
                for line in [
                    format!("PRINT ({}{}{});({}{}{})", sa, p.text(), sb, sb, q.text(), sa),
                    format!("X={}:Y#={}:PRINT (X{}Y#);(Y#{}X)", sa, sb, p.text(), q.text()),
                    format!("PRINT -({}{}{});:IF {}{}{} THEN PRINT 1 ELSE PRINT 0", sa, p.text(), sb, sb, q.text(), sa),
                ] {
                    if ctx.begin(&line) {
                        match vm_eval(&line) {
                            Err(pn) => ctx.violation("mirror/panic", pn),
                            Ok(Err(_)) => {}
                            Ok(Ok(t)) => {
                                let f: Vec<&str> = t.split_whitespace().collect();
                                let ok = |x: &str| x == "0" || x == if line.starts_with("PRINT -") { "1" } else { "-1" };
                                if f.len() != 2 || !ok(f[0]) || !ok(f[1]) {
                                    ctx.violation(&format!("{}/not-0-or--1", p.text()), format!("{} prints {:?}", line, t));
                                } else if f[0] != f[1] {
                                    ctx.violation(&format!("{}-{}/mirror-disagrees", p.text(), q.text()), format!("{} prints {:?}", line, t));
                                }
                            }
                        }
                    }
                }
            }
        }
        ctx.sample();
    }
}

// ------------------------------------------------------------------ (2) precedence

#[derive(Clone, Copy, PartialEq, Debug)]
enum U {
    Bin(BinOp),
    Neg,
    Not,
}

fn operand_values() -> Vec<i16> {
    vec![7, 2, 3, 0, -1, 5]
}

fn lit(n: i16) -> Expr {
    crate::gen::int(n)
}

/// all trees with exactly `k` binary operators (plus optional unary at each node)
struct Prec {
    depth3: bool,
    wide: bool,
}

fn apply(u: U, l: Expr, r: Option<Expr>) -> Expr {
    match u {
        U::Bin(op) => bin(op, l, r.unwrap()),
        U::Neg => Expr::Neg(Box::new(l)),
        U::Not => Expr::Not(Box::new(l)),
    }
}

fn eval_tree(e: &Expr) -> Result<V, E> {
    match e {
        Expr::Lit(v, _) => Ok(v.clone()),
        Expr::Neg(a) => neg(&eval_tree(a)?),
        Expr::Not(a) => not(&eval_tree(a)?),
        Expr::Bin(op, a, b) => {
            let x = eval_tree(a)?;
            let y = eval_tree(b)?;
            binop(*op, &x, &y)
        }
        Expr::Paren(a) | Expr::Plus(a) => eval_tree(a),
        _ => Err("#undefined"),
    }
}

fn tree_exact(e: &Expr) -> bool {
    match e {
        Expr::Bin(BinOp::Pow, a, b) => {
            // exact only for Integer ^ non-negative Integer
            matches!((eval_tree(a), eval_tree(b)), (Ok(V::Int(_)), Ok(V::Int(y))) if y >= 0) && tree_exact(a) && tree_exact(b)
        }
        Expr::Bin(_, a, b) => tree_exact(a) && tree_exact(b),
        Expr::Neg(a) | Expr::Not(a) | Expr::Paren(a) | Expr::Plus(a) => tree_exact(a),
        _ => true,
    }
}

impl Sweep for Prec {
    fn name(&self) -> String {
        if self.depth3 { "precedence-operator-triples".into() } else { "precedence-operator-pairs".into() }
    }
    fn shards(&self) -> usize {
        // first operator
        ALL_BINOPS.len() + 2
    }
    fn run_shard(&self, shard: usize, ctx: &mut Ctx) {
        let mut ops: Vec<U> = ALL_BINOPS.iter().map(|o| U::Bin(*o)).collect();
        ops.push(U::Neg);
        ops.push(U::Not);
        let o1 = ops[shard];
        let vals = operand_values();
        let sub: Vec<i16> = if self.depth3 && !self.wide {
            vec![7, 2, 3]
        } else if self.depth3 {
            vec![7, 2, 3, 0, -1]
        } else {
            vals.clone()
        };
        for &o2 in &ops {
            let thirds: Vec<Option<U>> = if self.depth3 { ops.iter().map(|o| Some(*o)).collect() } else { vec![None] };
            for o3 in thirds {
                // enumerate tree shapes over the operators o1, o2 (, o3) in source order
                let mut shapes: Vec<Box<dyn Fn(&[i16]) -> Option<Expr>>> = vec![];
                match (o1, o2, o3) {
                    (U::Bin(a), U::Bin(b), None) => {
                        shapes.push(Box::new(move |v| Some(bin(b, bin(a, lit(v[0]), lit(v[1])), lit(v[2])))));
                        shapes.push(Box::new(move |v| Some(bin(a, lit(v[0]), bin(b, lit(v[1]), lit(v[2]))))));
                    }
                    (u, U::Bin(b), None) if u != U::Neg || true => {
                        if let U::Bin(_) = u {
                        } else {
                            // unary u then binary b:  u(x) b y   and   u(x b y)
                            shapes.push(Box::new(move |v| Some(bin(b, apply(u, lit(v[0]), None), lit(v[1])))));
                            shapes.push(Box::new(move |v| Some(apply(u, bin(b, lit(v[0]), lit(v[1])), None))));
                        }
                    }
                    (U::Bin(a), u, None) => {
                        // binary a then unary u on the right operand: x a u(y)
                        shapes.push(Box::new(move |v| Some(bin(a, lit(v[0]), apply(u, lit(v[1]), None)))));
                    }
                    (U::Bin(a), U::Bin(b), Some(U::Bin(c))) => {
                        shapes.push(Box::new(move |v| Some(bin(c, bin(b, bin(a, lit(v[0]), lit(v[1])), lit(v[2])), lit(v[3])))));
                        shapes.push(Box::new(move |v| Some(bin(c, bin(a, lit(v[0]), bin(b, lit(v[1]), lit(v[2]))), lit(v[3])))));
                        shapes.push(Box::new(move |v| Some(bin(b, bin(a, lit(v[0]), lit(v[1])), bin(c, lit(v[2]), lit(v[3]))))));
                        shapes.push(Box::new(move |v| Some(bin(a, lit(v[0]), bin(c, bin(b, lit(v[1]), lit(v[2])), lit(v[3]))))));
                        shapes.push(Box::new(move |v| Some(bin(a, lit(v[0]), bin(b, lit(v[1]), bin(c, lit(v[2]), lit(v[3])))))));
                    }
                    _ => {}
                }
                let arity = if o3.is_some() { 4 } else { 3 };
                let n = sub.len();
                for shape in &shapes {
                    for idx in 0..n.pow(arity as u32) {
                        let mut x = idx;
                        let mut v = vec![];
                        for _ in 0..arity {
                            v.push(sub[x % n]);
                            x /= n;
                        }
                        let tree = match shape(&v) {
                            Some(t) => t,
                            None => continue,
                        };
                        let exp = eval_tree(&tree);
                        let ex = tree_exact(&tree);
                        let site = format!("precedence-{:?}-{:?}", o1, o2).replace("Bin(", "").replace(')', "");
                        judge_vm(&site, &tree.render(), &exp, ex, false, ctx);
                        judge_vm(&site, &tree.render_full(), &exp, ex, false, ctx);
                        ctx.nontrivial(hash64(&(format!("{:?}{:?}{:?}", o1, o2, o3), format!("{:?}", exp))));
                        if ctx.done() {
                            return;
                        }
                    }
                }
            }
        }
        ctx.sample();
    }
}

// ------------------------------------------------------------------ (3) literals

struct Literals {
    n: usize,
}

const LIT_ALPHA: [char; 12] = ['0', '1', '9', '3', '.', 'E', 'D', '+', '-', '!', '#', '%'];

/// Manual chapter 1: type and value of an undecorated / decorated literal.
/// None = the manual does not decide (skipped).
fn classify(s: &str) -> Option<Result<V, ()>> {
    let cs: Vec<char> = s.chars().collect();
    let (body, suffix) = match cs.last() {
        Some('!') | Some('#') | Some('%') => (&cs[..cs.len() - 1], cs.last().cloned()),
        _ => (&cs[..], None),
    };
    // grammar: d*[.d*][(E|D)[+-]d+]
    let mut i = 0;
    let mut digits = 0;
    let mut int_digits = String::new();
    while i < body.len() && body[i].is_ascii_digit() {
        int_digits.push(body[i]);
        i += 1;
        digits += 1;
    }
    let mut decimal = false;
    if i < body.len() && body[i] == '.' {
        decimal = true;
        i += 1;
        while i < body.len() && body[i].is_ascii_digit() {
            i += 1;
            digits += 1;
        }
    }
    if digits == 0 {
        return None;
    }
    let mut exp_letter = None;
    if i < body.len() && (body[i] == 'E' || body[i] == 'D') {
        exp_letter = Some(body[i]);
        i += 1;
        if i < body.len() && (body[i] == '+' || body[i] == '-') {
            i += 1;
        }
        let mut ed = 0;
        while i < body.len() && body[i].is_ascii_digit() {
            i += 1;
            ed += 1;
        }
        if ed == 0 {
            return None;
        }
    }
    if i != body.len() {
        return None;
    }
    // leading zeros make "more than 7 digits" ambiguous
    if int_digits.len() > 1 && int_digits.starts_with('0') {
        return None;
    }
    if int_digits == "0" && digits > 7 {
        return None;
    }
    let text: String = body.iter().collect::<String>().replace('D', "E");
    let text = if text.starts_with('.') { format!("0{}", text) } else { text };
    let text = text.replace(".E", ".0E");
    let text = if text.ends_with('.') { format!("{}0", text) } else { text };
    let ty = match suffix {
        Some('!') => Ty::Sng,
        Some('#') => Ty::Dbl,
        Some('%') => {
            if decimal || exp_letter.is_some() {
                return None;
            }
            Ty::Int
        }
        _ => {
            if exp_letter == Some('E') {
                if digits > 7 {
                    return None; // rule order ambiguous: E says Single, digits say Double
                }
                Ty::Sng
            } else if exp_letter == Some('D') {
                Ty::Dbl
            } else if digits > 7 {
                Ty::Dbl
            } else if decimal {
                Ty::Sng
            } else if text.parse::<i32>().map(|n| n <= 32767).unwrap_or(false) {
                Ty::Int
            } else {
                Ty::Sng
            }
        }
    };
    if suffix.is_some() && exp_letter == Some('D') && suffix != Some('#') {
        return None;
    }
    if suffix == Some('#') && exp_letter == Some('E') {
        // 1E5# : decorated Double with an E exponent - fine
    }
    Some(match ty {
        Ty::Int => match text.parse::<i32>() {
            Ok(n) if n <= 32767 => Ok(V::Int(n as i16)),
            _ => Err(()),
        },
        Ty::Sng => Ok(V::Sng(text.parse::<f32>().ok()?)),
        Ty::Dbl => Ok(V::Dbl(text.parse::<f64>().ok()?)),
        Ty::Str => return None,
    })
}

fn literal_of_line(s: &str) -> Result<Option<V>, String> {
    use basic::lang::ast::{Expression, Statement};
    guard(|| {
        let l = basic::lang::Line::new(&format!("A={}", s));
        match l.ast() {
            Ok(stmts) => match stmts.first() {
                Some(Statement::Let(_, _, e)) if stmts.len() == 1 => match e {
                    Expression::Integer(_, n) => Some(V::Int(*n)),
                    Expression::Single(_, n) => Some(V::Sng(*n)),
                    Expression::Double(_, n) => Some(V::Dbl(*n)),
                    _ => None,
                },
                _ => None,
            },
            Err(_) => None,
        }
    })
}

impl Sweep for Literals {
    fn name(&self) -> String {
        format!("literal-spellings-len-{}", self.n)
    }
    fn shards(&self) -> usize {
        LIT_ALPHA.len()
    }
    fn run_shard(&self, shard: usize, ctx: &mut Ctx) {
        let a = LIT_ALPHA;
        for len in 1..=self.n {
            let total = a.len().pow(len as u32 - 1);
            for idx in 0..total {
                let mut s = String::new();
                s.push(a[shard]);
                let mut x = idx;
                for _ in 1..len {
                    s.push(a[x % a.len()]);
                    x /= a.len();
                }
                let exp = match classify(&s) {
                    Some(e) => e,
                    None => continue,
                };
                if !ctx.begin(&format!("A={}", s)) {
                    continue;
                }
                match literal_of_line(&s) {
                    Err(p) => ctx.violation("literal/panic", p),
                    Ok(got) => {
                        ctx.nontrivial(hash64(&format!("{:?}", exp)));
                        let ok = match (&exp, &got) {
                            (Ok(e), Some(g)) => e.ty() == g.ty() && e.same_bits(g),
                            (Err(()), None) => true,
                            _ => false,
                        };
                        if !ok {
                            let class = match (&exp, &got) {
                                (Ok(e), Some(g)) if e.ty() != g.ty() => format!("typed-{:?}-instead-of-{:?}", g.ty(), e.ty()),
                                (Ok(_), Some(_)) => "wrong-value".to_string(),
                                (Ok(_), None) => "rejected".to_string(),
                                _ => "accepted-out-of-range".to_string(),
                            };
                            ctx.violation(&format!("literal/{}", class), format!("{} : manual says {:?}, parser gives {:?}", s, exp, got));
                        }
                    }
                }
            }
        }
        // long spellings: 1..9 mantissa digits, every position of the point, exponents with
        // one to eight digits, suffixes - the 7-digit rule counts mantissa digits only
        if shard == 1 {
            for m in 1..=9usize {
                let digits = &"123456789"[..m];
                for p in 0..=m + 1 {
                    let mant = if p == m + 1 { digits.to_string() } else { format!("{}.{}", &digits[..p], &digits[p..]) };
                    for e in ["", "E5", "E10", "E+10", "E-10", "E05", "E005", "E0000010", "E-00000010", "D5", "D10", "D-10", "D005", "D0000010"] {
                        for suf in ["", "!", "#"] {
                            let s = format!("{}{}{}", mant, e, suf);
                            let exp = match classify(&s) {
                                Some(x) => x,
                                None => continue,
                            };
                            if !ctx.begin(&format!("A={}", s)) {
                                continue;
                            }
                            match literal_of_line(&s) {
                                Err(pn) => ctx.violation("literal/panic", pn),
                                Ok(got) => {
                                    ctx.nontrivial(hash64(&format!("{:?}", exp)));
                                    let ok = match (&exp, &got) {
                                        (Ok(e), Some(g)) => e.ty() == g.ty() && e.same_bits(g),
                                        (Err(()), None) => true,
                                        _ => false,
                                    };
                                    if !ok {
                                        let class = match (&exp, &got) {
                                            (Ok(e), Some(g)) if e.ty() != g.ty() => format!("typed-{:?}-instead-of-{:?}", g.ty(), e.ty()),
                                            (Ok(_), Some(_)) => "wrong-value".to_string(),
                                            (Ok(_), None) => "rejected".to_string(),
                                            _ => "accepted-out-of-range".to_string(),
                                        };
                                        ctx.violation(&format!("literal/{}", class), format!("{} : manual says {:?}, parser gives {:?}", s, exp, got));
                                    }
                                }
                            }
                        }
                    }
                }
            }
        }
        // radix literals
        if shard == 0 {
            for (s, v) in [("&10", 8), ("&010", 8), ("&H0D", 13), ("&HFF", 255), ("&H7FFF", 32767), ("&77777", 32767), ("&h1f", 31), ("&0", 0), ("&H0", 0)] {
                if ctx.begin(&format!("A={}", s)) {
                    match literal_of_line(s) {
                        Ok(Some(V::Int(n))) if n == v => {}
                        other => ctx.violation("literal/radix", format!("{} : expected Integer {}, got {:?}", s, v, other)),
                    }
                }
            }
            ctx.sample();
        }
    }
}

// ------------------------------------------------------------------ (4) functions, (5) assignment

struct Functions;

fn api_fn(name: &str, a: Val) -> Result<Val, basic::lang::Error> {
    match name {
        "ABS" => Function::abs(a),
        "ATN" => Function::atn(a),
        "CDBL" => Function::cdbl(a),
        "CINT" => Function::cint(a),
        "COS" => Function::cos(a),
        "CSNG" => Function::csng(a),
        "EXP" => Function::exp(a),
        "FIX" => Function::fix(a),
        "INT" => Function::int(a),
        "LOG" => Function::log(a),
        "SGN" => Function::sgn(a),
        "SIN" => Function::sin(a),
        "SQR" => Function::sqr(a),
        _ => Function::tan(a),
    }
}

impl Sweep for Functions {
    fn name(&self) -> String {
        "numeric-functions-and-assignment".into()
    }
    fn shards(&self) -> usize {
        values().len()
    }
    fn run_shard(&self, shard: usize, ctx: &mut Ctx) {
        let vals = values();
        let a = &vals[shard];
        for name in ["ABS", "ATN", "CDBL", "CINT", "COS", "CSNG", "EXP", "FIX", "INT", "LOG", "SGN", "SIN", "SQR", "TAN"] {
            let exp = funcs::call(name, &[a.clone()], 0);
            let ex = !funcs::is_transcendental(name);
            let text = format!("{}({})", name, src(a));
            if ctx.begin(&format!("API {}", text)) {
                match guard(|| api_fn(name, to_val(a))) {
                    Err(p) => ctx.violation(&format!("{}/panic", name), p),
                    Ok(r) => {
                        if let Some(class) = agree(&exp, &api_result(r), ex) {
                            ctx.violation(&format!("{}/{}", name, class), format!("{} : expected {:?}", text, exp));
                        }
                    }
                }
                ctx.nontrivial(hash64(&(name, format!("{:?}", exp))));
            }
            judge_vm(name, &text, &exp, ex, true, ctx);
        }
        // VAL reads the documented number grammar at run time (exponent letters in either case)
        if shard == 0 {
            for s in ["1d2", "2.5d-1", "1.5d1", "1D2", "1e2", "1E2", "3.5e-1", "7", "-7.25", "&H1F", "&17", " 12 ", "12abc", ""] {
                let exp = funcs::call("VAL", &[V::s(s)], 0);
                judge_vm("VAL", &format!("VAL(\"{}\")", s), &exp, true, false, ctx);
                judge_vm("VAL", &format!("VAL(\"{}\")+1", s), &exp.clone().and_then(|v| binop(BinOp::Add, &v, &V::Int(1))), true, false, ctx);
            }
        }
        // assignment converts to the target's type
        for (var, ty) in [("A%", Ty::Int), ("A!", Ty::Sng), ("A#", Ty::Dbl), ("A$", Ty::Str), ("A", Ty::Sng), ("B%(2)", Ty::Int), ("C#(1,1)", Ty::Dbl)] {
            let exp = a.convert(ty);
            let line = format!("{}={}:PRINT {}", var, src(a), var);
            if ctx.begin(&line) {
                match vm_eval(&line) {
                    Err(p) => ctx.violation("assign/panic", p),
                    Ok(r) => {
                        let bad = match (&exp, &r) {
                            (Ok(e), Ok(t)) => printed_agrees(e, t, true).err(),
                            (Err(c), Err(g)) => if c == g { None } else { Some(format!("error {} instead of {}", g, c)) },
                            (Ok(_), Err(g)) => Some(format!("error {}", g)),
                            (Err(c), Ok(t)) => Some(format!("stored {:?} instead of {}", t, c)),
                        };
                        if let Some(d) = bad {
                            ctx.violation(&format!("assign-to-{:?}/wrong-conversion", ty), format!("{} : expected {:?}; {}", line, exp, d));
                        }
                    }
                }
                ctx.nontrivial(hash64(&(var, format!("{:?}", exp))));
            }
            // the variable never holds a value of another type
            if let Ok(e) = &exp {
                if ty != Ty::Str && e.as_f64().map(|f| f.is_finite()).unwrap_or(false) {
                    let pre = format!("{}={}", var, src(a));
                    let l1 = format!("{}:PRINT ({})*0+32767+1", pre, var);
                    if ctx.begin(&l1) {
                        let r = guard(|| {
                            let mut s = Session::new();
                            s.enter(&pre);
                            s.take();
                            s.enter(&format!("PRINT ({})*0+32767+1", var));
                            let x = crate::driver::render_codes(&s.take());
                            s.enter(&format!("PRINT (({})*0+1)/3", var));
                            let y = crate::driver::render_codes(&s.take());
                            (x, y)
                        });
                        if let Ok((x, y)) = r {
                            let got = if x.contains("OVERFLOW") { Ty::Int } else if y.contains("0.3333333333333333") { Ty::Dbl } else { Ty::Sng };
                            if got != ty {
                                ctx.violation(&format!("assign-to-{:?}/holds-{:?}", ty, got), format!("{} then probes: {} | {}", pre, x, y));
                            }
                        }
                    }
                }
            }
        }
        ctx.sample();
    }
}

impl Check for C02 {
    fn id(&self) -> &'static str {
        "C02"
    }
    fn sweeps(&self, tier: Tier) -> Vec<Box<dyn Sweep>> {
        vec![
            Box::new(Matrix),
            Box::new(Mirror),
            Box::new(Functions),
            Box::new(Literals { n: tier.pick(6, 7) }),
            Box::new(Prec { depth3: false, wide: false }),
            Box::new(Prec { depth3: true, wide: tier == Tier::Thorough }),
        ]
    }
    fn meta(&self, tier: Tier) -> Meta {
        Meta {
            bound: format!(
                "(1) 18 binary operators x all ordered pairs of 51 boundary values (12 Integer, 15 Single, 20 Double incl. four within Single resolution of a whole number and the infinities, 4 String) and unary -, +, NOT, through Operation::* (result variant compared exactly) and through PRINT with two type probes; (1b) every relational operator against its mirror image (a>=b and b<=a, ...) on all ordered pairs of 15 operands incl. three not-a-number expressions and the infinities, through Operation::*, PRINT, variables and IF; (2) every ordered pair of the 20 operators (18 binary, unary -, NOT) in both tree shapes over all operand triples from {{7,2,3,0,-1,5}}, rendered with minimal and with full parentheses{}; (3) every literal spelling of length <={} over {{0 1 9 3 . E D + - ! # %}} that the manual's rules classify, plus radix literals and structured long spellings (1-9 mantissa digits x point position x 14 exponent spellings x suffix), observed in Line::ast(); (4) 14 numeric functions x the 51 values; (5) assignment of the 51 values to A%, A!, A#, A$, A, B%(2), C#(1,1) with read-back type probes",
                if tier == Tier::Thorough { ", and every operator triple of the 18 binary operators in all five tree shapes over operands {7,2,3,0,-1}" } else { ", and every operator triple of the 18 binary operators in all five tree shapes over operands {7,2,3}" },
                tier.pick(6, 7)
            ),
            rule: "a case is one call / one entered line; distinct_nontrivial = distinct (operator, operand types, expected result) / (operator sequence, expected value) / expected literal values".into(),
            states_note: "transitions = evaluations on the implementation compared with refmodel::value".into(),
            assumptions: vec![
                "+ - * / and SQR are exactly rounded and compared bit for bit; ^ with a non-Integer result, SIN COS TAN ATN EXP LOG within 4 ulp".into(),
                "= and <> of unequal floats closer than 4 epsilon are outside the defined fragment (the implementation's equality is tolerant by design) and skipped; < <= > >= are exact for all operands".into(),
                "literal rules with ambiguous precedence (E exponent with more than 7 digits, leading zeros, % on non-integers, radix values above 32767) are skipped".into(),
            ],
        }
    }
}
