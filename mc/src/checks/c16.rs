//! C16 — spelling variants of a line mean the same.
//! Every line of the bounded program space, plus one line per statement kind
//! of the language, is re-spelled in all 1- and 2-deviation ways (case per
//! token, blanks per gap, documented aliases); each variant must list like
//! the canonical spelling and run to the same transcript.

use super::common::*;
use super::progspace::{Level, ProgSweep};
use super::{Check, Meta};
use crate::engine::{guard, hash64, Ctx, Sweep, Tier};
use crate::gen::*;
use basic::lang::Line as BLine;

pub struct C16;

#[derive(Clone, Debug, PartialEq)]
enum K {
    Word,
    Ident,
    Num,
    Str,
    Op,
    Punct,
    RemText,
}

#[derive(Clone, Debug)]
struct Tok {
    text: String,
    kind: K,
    /// blanks before this token in the canonical spelling
    gap: usize,
}

const WORDS: [&str; 52] = [
    "RESTORE", "DEFDBL", "DEFINT", "DEFSNG", "DEFSTR", "DELETE", "RETURN", "CLEAR", "ERASE", "GOSUB", "INPUT", "PRINT",
    "RENUM", "TROFF", "WHILE", "CONT", "DATA", "ELSE", "GOTO", "NEXT", "LIST", "LOAD", "READ", "SAVE", "STEP", "STOP",
    "SWAP", "THEN", "TRON", "WEND", "AND", "CLS", "DEF", "DIM", "END", "EQV", "FOR", "IMP", "LET", "MOD", "NEW", "NOT",
    "REM", "RUN", "XOR", "IF", "ON", "OR", "TO", "GO", "SUB", "FN",
];

/// Tokenise a canonical (harness-rendered) statement text.
fn tokenize(text: &str) -> Vec<Tok> {
    let cs: Vec<char> = text.chars().collect();
    let mut out = vec![];
    let mut i = 0;
    let mut gap = 0;
    while i < cs.len() {
        let c = cs[i];
        if c == ' ' {
            gap += 1;
            i += 1;
            continue;
        }
        let start = i;
        let kind;
        if c == '"' {
            i += 1;
            while i < cs.len() && cs[i] != '"' {
                i += 1;
            }
            i = (i + 1).min(cs.len());
            kind = K::Str;
        } else if c.is_ascii_digit() || c == '.' {
            while i < cs.len() && (cs[i].is_ascii_digit() || cs[i] == '.') {
                i += 1;
            }
            if i < cs.len() && (cs[i] == 'E' || cs[i] == 'D') && i + 1 < cs.len() && (cs[i + 1].is_ascii_digit() || cs[i + 1] == '+' || cs[i + 1] == '-') {
                i += 2;
                while i < cs.len() && cs[i].is_ascii_digit() {
                    i += 1;
                }
            }
            if i < cs.len() && matches!(cs[i], '!' | '#' | '%') {
                i += 1;
            }
            kind = K::Num;
        } else if c == '&' {
            i += 1;
            while i < cs.len() && cs[i].is_ascii_alphanumeric() {
                i += 1;
            }
            kind = K::Num;
        } else if c.is_ascii_alphabetic() {
            while i < cs.len() && (cs[i].is_ascii_alphanumeric()) {
                i += 1;
            }
            if i < cs.len() && matches!(cs[i], '$' | '!' | '#' | '%') {
                i += 1;
            }
            let t: String = cs[start..i].iter().collect();
            kind = if WORDS.contains(&t.as_str()) { K::Word } else { K::Ident };
            if t == "REM" {
                out.push(Tok { text: t, kind: K::Word, gap });
                let rest: String = cs[i..].iter().collect();
                if !rest.is_empty() {
                    out.push(Tok { text: rest, kind: K::RemText, gap: 0 });
                }
                return out;
            }
        } else if c == '\'' {
            out.push(Tok { text: "'".into(), kind: K::Word, gap });
            let rest: String = cs[i + 1..].iter().collect();
            if !rest.is_empty() {
                out.push(Tok { text: rest, kind: K::RemText, gap: 0 });
            }
            return out;
        } else if "<>=".contains(c) {
            while i < cs.len() && "<>=".contains(cs[i]) {
                i += 1;
            }
            kind = K::Op;
        } else if "+-*/\\^".contains(c) {
            i += 1;
            kind = K::Op;
        } else {
            i += 1;
            kind = K::Punct;
        }
        out.push(Tok { text: cs[start..i].iter().collect(), kind, gap });
        gap = 0;
    }
    out
}

fn alt_case(s: &str) -> String {
    s.chars()
        .enumerate()
        .map(|(i, c)| if i % 2 == 0 { c.to_ascii_lowercase() } else { c.to_ascii_uppercase() })
        .collect()
}

/// One deviation at one site: (token index, replacement text for the token
/// including its leading gap) — `expect_listing` is the edit applied to the
/// canonical text that the lister is allowed to keep (LET, remark marker).
#[derive(Clone, Debug)]
struct Dev {
    at: usize,
    /// new leading gap (None = unchanged)
    gap: Option<usize>,
    /// new token text (None = unchanged)
    text: Option<String>,
    /// what the lister shows for this token instead of the canonical text
    listed: Option<String>,
    name: &'static str,
}

fn wordish(k: &K) -> bool {
    matches!(k, K::Word | K::Ident | K::Num)
}

fn deviations(toks: &[Tok]) -> Vec<Dev> {
    let mut d = vec![];
    for (i, t) in toks.iter().enumerate() {
        // case
        match t.kind {
            K::Word | K::Ident => {
                if t.text.chars().any(|c| c.is_ascii_alphabetic()) {
                    d.push(Dev { at: i, gap: None, text: Some(t.text.to_ascii_lowercase()), listed: None, name: "lower-case" });
                    if t.text.len() > 1 {
                        d.push(Dev { at: i, gap: None, text: Some(alt_case(&t.text)), listed: None, name: "mixed-case" });
                    }
                }
            }
            K::Num => {
                if t.text.chars().any(|c| c.is_ascii_alphabetic()) {
                    d.push(Dev { at: i, gap: None, text: Some(t.text.to_ascii_lowercase()), listed: None, name: "lower-case-number-letter" });
                }
            }
            _ => {}
        }
        // aliases
        match (t.kind.clone(), t.text.as_str()) {
            (K::Word, "PRINT") => d.push(Dev { at: i, gap: None, text: Some("?".into()), listed: None, name: "question-mark" }),
            (K::Word, "REM") => d.push(Dev { at: i, gap: None, text: Some("'".into()), listed: Some("'".into()), name: "tick-remark" }),
            (K::Word, "GOTO") => {
                d.push(Dev { at: i, gap: None, text: Some("GO TO".into()), listed: None, name: "go-to" });
                d.push(Dev { at: i, gap: None, text: Some("go  to".into()), listed: None, name: "go-to" });
                d.push(Dev { at: i, gap: None, text: Some("GO \tTO".into()), listed: None, name: "go-to" });
            }
            (K::Word, "GOSUB") => {
                d.push(Dev { at: i, gap: None, text: Some("GO SUB".into()), listed: None, name: "go-sub" });
                d.push(Dev { at: i, gap: None, text: Some("GO\t SUB".into()), listed: None, name: "go-sub" });
            }
            (K::Op, "<=") => {
                d.push(Dev { at: i, gap: None, text: Some("=<".into()), listed: None, name: "equal-less" });
                d.push(Dev { at: i, gap: None, text: Some("< =".into()), listed: None, name: "blank-inside-operator" });
                d.push(Dev { at: i, gap: None, text: Some("= <".into()), listed: None, name: "blank-inside-operator" });
                d.push(Dev { at: i, gap: None, text: Some("<\t =".into()), listed: None, name: "blank-inside-operator" });
            }
            (K::Op, ">=") => {
                d.push(Dev { at: i, gap: None, text: Some("=>".into()), listed: None, name: "equal-greater" });
                d.push(Dev { at: i, gap: None, text: Some("> =".into()), listed: None, name: "blank-inside-operator" });
                d.push(Dev { at: i, gap: None, text: Some("= >".into()), listed: None, name: "blank-inside-operator" });
                d.push(Dev { at: i, gap: None, text: Some("> \t=".into()), listed: None, name: "blank-inside-operator" });
            }
            (K::Op, "<>") => {
                d.push(Dev { at: i, gap: None, text: Some("< >".into()), listed: None, name: "blank-inside-operator" });
                d.push(Dev { at: i, gap: None, text: Some("<  >".into()), listed: None, name: "blank-inside-operator" });
                d.push(Dev { at: i, gap: None, text: Some("< \t>".into()), listed: None, name: "blank-inside-operator" });
            }
            _ => {}
        }
        // gaps
        if i > 0 {
            let l = &toks[i - 1];
            if l.kind == K::RemText || t.kind == K::RemText {
                continue;
            }
            let both_wordish = wordish(&l.kind) && wordish(&t.kind);
            // a blank is optional between a keyword and a following/preceding
            // identifier or number (keywords are split at reserved words), and
            // around punctuation, operators and strings
            let zero_ok = if both_wordish {
                (l.kind == K::Word && t.kind != K::Word && l.text != "REM" && l.text != "FN" && l.text != "DATA")
                    || (t.kind == K::Word && l.kind == K::Ident && l.text.len() == 1 && "IJ".contains(&l.text))
                    || (t.kind == K::Word && l.kind == K::Num && !l.text.starts_with('&'))
            } else {
                true
            };
            for g in 0..=2usize {
                if g == t.gap || (g == 0 && !zero_ok) {
                    continue;
                }
                d.push(Dev { at: i, gap: Some(g), text: None, listed: None, name: if g == 0 { "no-blank" } else { "extra-blank" } });
            }
        }
    }
    d
}

/// optional LET in front of an assignment statement
fn let_sites(toks: &[Tok]) -> Vec<usize> {
    // statement starts: index 0, after ':', after THEN / ELSE
    let mut starts = vec![0usize];
    for (i, t) in toks.iter().enumerate() {
        if (t.kind == K::Punct && t.text == ":") || (t.kind == K::Word && (t.text == "THEN" || t.text == "ELSE")) {
            starts.push(i + 1);
        }
    }
    starts
        .into_iter()
        .filter(|&s| {
            s < toks.len()
                && toks[s].kind == K::Ident
                && toks[s].text != "MID$"
                && toks[s + 1..].iter().take_while(|t| !(t.kind == K::Punct && t.text == ":")).any(|t| t.kind == K::Op && t.text == "=")
        })
        .collect()
}

fn render_with(toks: &[Tok], devs: &[&Dev], lets: &[usize], listed: bool) -> String {
    let mut s = String::new();
    for (i, t) in toks.iter().enumerate() {
        let mut gap = t.gap;
        let mut text = t.text.clone();
        for d in devs {
            if d.at == i {
                if listed {
                    if let Some(l) = &d.listed {
                        text = l.clone();
                    }
                } else {
                    if let Some(g) = d.gap {
                        gap = g;
                    }
                    if let Some(x) = &d.text {
                        text = x.clone();
                    }
                }
            }
        }
        s.push_str(&" ".repeat(gap));
        if lets.contains(&i) {
            s.push_str("LET ");
        }
        s.push_str(&text);
    }
    s
}

/// Listed text with the blanks outside string literals and remarks removed:
/// the lister deliberately keeps the blanks the user typed (and adds one
/// between adjacent words), so "list identically" is judged on everything else.
fn lists_as(line: &str) -> Result<String, String> {
    guard(|| squeeze(&BLine::new(line).to_string()))
}

fn squeeze(listed: &str) -> String {
    {
        let mut out = String::new();
        let mut in_str = false;
        let cs: Vec<char> = listed.chars().collect();
        let mut i = 0;
        while i < cs.len() {
            let c = cs[i];
            if in_str {
                out.push(c);
                if c == '"' {
                    in_str = false;
                }
            } else if c == '"' {
                in_str = true;
                out.push(c);
            } else if c == '\'' || (c == 'R' && cs[i..].starts_with(&['R', 'E', 'M'])) {
                out.extend(cs[i..].iter());
                break;
            } else if c != ' ' && c != '\t' {
                out.push(c);
            }
            i += 1;
        }
        out
    }
}

/// Parsed statements with column ranges erased ("Err" if rejected).
fn ast_of(line: &str) -> Result<String, String> {
    guard(|| match BLine::new(line).ast() {
        Err(_) => "Err".to_string(),
        Ok(a) => {
            let d = format!("{:?}", a);
            let cs: Vec<char> = d.chars().collect();
            let mut out = String::new();
            let mut i = 0;
            while i < cs.len() {
                if cs[i].is_ascii_digit() {
                    let mut j = i;
                    while j < cs.len() && cs[j].is_ascii_digit() {
                        j += 1;
                    }
                    if j + 2 < cs.len() && cs[j] == '.' && cs[j + 1] == '.' && cs[j + 2].is_ascii_digit() {
                        let mut k = j + 2;
                        while k < cs.len() && cs[k].is_ascii_digit() {
                            k += 1;
                        }
                        out.push('_');
                        i = k;
                        continue;
                    }
                    out.extend(cs[i..j].iter());
                    i = j;
                    continue;
                }
                out.push(cs[i]);
                i += 1;
            }
            out
        }
    })
}

/// All 1- and 2-deviation spellings of one statement text: (variant, expected listing, name)
fn variants(canon: &str, pairs: bool) -> Vec<(String, String, String)> {
    let toks = tokenize(canon);
    let devs = deviations(&toks);
    let lets = let_sites(&toks);
    let mut out = vec![];
    for (i, a) in devs.iter().enumerate() {
        out.push((render_with(&toks, &[a], &[], false), render_with(&toks, &[a], &[], true), a.name.to_string()));
        if pairs {
            for b in devs.iter().skip(i + 1) {
                if b.at == a.at && (a.text.is_some() == b.text.is_some()) && (a.gap.is_some() == b.gap.is_some()) {
                    continue;
                }
                // GO and SUB are not reserved words: gluing a neighbour onto
                // the two-word spelling makes an identifier (IGO, SUB10)
                let glue = |x: &Dev, y: &Dev| {
                    (x.name == "go-to" || x.name == "go-sub") && y.name == "no-blank" && (y.at == x.at || y.at == x.at + 1)
                };
                if glue(a, b) || glue(b, a) {
                    continue;
                }
                out.push((
                    render_with(&toks, &[a, b], &[], false),
                    render_with(&toks, &[a, b], &[], true),
                    format!("{}+{}", a.name, b.name),
                ));
            }
        }
    }
    for &l in &lets {
        out.push((render_with(&toks, &[], &[l], false), render_with(&toks, &[], &[l], true), "let".into()));
        if pairs {
            for a in devs.iter() {
                out.push((
                    render_with(&toks, &[a], &[l], false),
                    render_with(&toks, &[a], &[l], true),
                    format!("let+{}", a.name),
                ));
            }
        }
    }
    out
}

fn check_line(num: u16, canon: &str, pairs: bool, ctx: &mut Ctx) {
    let canon_line = format!("{} {}", num, canon);
    let base = lists_as(&canon_line);
    for (v, want, name) in variants(canon, pairs) {
        let vline = format!("{} {}", num, v);
        if !ctx.begin(&format!("{}  ~~[{}]~~>  {}", canon_line, name, vline)) {
            continue;
        }
        ctx.count("lines");
        let want_line = format!("{} {}", num, want);
        let expect = match (&base, lists_as(&want_line)) {
            (Ok(b), Ok(w)) => {
                // the canonical spelling (with the allowed LET / ' edit) must itself be a fixed point
                if want == canon && *b != squeeze(&canon_line) {
                    ctx.skip("canonical spelling is not what LIST shows (harness renderer)");
                    continue;
                }
                w
            }
            _ => {
                ctx.skip("canonical line panics (C03's business)");
                continue;
            }
        };
        match lists_as(&vline) {
            Err(p) => ctx.violation(&format!("{}/panic", name), p),
            Ok(got) => {
                ctx.nontrivial(hash64(&(name.as_str(), &expect)));
                if got != expect {
                    ctx.violation(
                        &format!("{}/lists-differently", name),
                        format!("variant lists as {:?}, canonical as {:?}", got, expect),
                    );
                } else if let (Ok(a), Ok(b)) = (ast_of(&want_line), ast_of(&vline)) {
                    if a != b {
                        ctx.violation(
                            &format!("{}/parses-differently", name),
                            format!("variant parses to {}, canonical to {}", b, a),
                        );
                    }
                }
            }
        }
        ctx.sample();
    }
}

fn replies() -> Vec<String> {
    ["1", "2", "0", "3", "1", "2", "0", "3"].iter().map(|s| s.to_string()).collect()
}

/// programs: re-spell one line at a time and compare listing and transcript
fn judge(pairs: bool) -> impl Fn(&Prog, &mut Ctx) + Sync + Send {
    move |p: &Prog, ctx: &mut Ctx| {
        let run = vec!["RUN".to_string()];
        let lines = p.render();
        let mut base: Option<(String, bool)> = None;
        for (li, l) in p.lines.iter().enumerate() {
            let canon = render_stmts(&l.stmts);
            for (v, _want, name) in variants(&canon, pairs) {
                let vline = format!("{} {}", l.num, v);
                if !ctx.begin(&format!("{}  with line {} spelled [{}] as  {}", p.text(), l.num, name, vline)) {
                    continue;
                }
                if base.is_none() {
                    base = session_text(&lines, &run, &replies()).ok();
                }
                let b = match &base {
                    Some(b) => b.clone(),
                    None => {
                        ctx.skip("baseline panics (C03's business)");
                        continue;
                    }
                };
                let mut vl = lines.clone();
                vl[li] = vline;
                match session_text(&vl, &run, &replies()) {
                    Err(pn) => ctx.violation(&format!("{}/panic", name), pn),
                    Ok(t) => {
                        ctx.nontrivial(hash64(&(name.as_str(), &b.0)));
                        if !same_or_prefix(&b, &t) {
                            ctx.violation(
                                &format!("{}/runs-differently", name),
                                format!("canonical ran to {:?}, variant to {:?}", b, t),
                            );
                        }
                    }
                }
                ctx.sample();
            }
        }
    }
}

/// One line per statement kind of the full language, and the token
/// neighbourhoods the property names (exponent letters, radix digits, type
/// suffixes, keywords next to digits).
pub fn language_lines() -> Vec<&'static str> {
    vec![
        "PRINT \"a\";I;J$,X%",
        "PRINT 1E5;2D3;1.5E-3;&H1F;&17;3!;4#;5%",
        "PRINT A<=B;A>=B;A<>B;A<B;A>B;A=B",
        "PRINT A AND B OR C XOR D IMP E EQV NOT F",
        "PRINT 7 MOD 2;7\\2;2^3;-A;+B",
        "PRINT LEFT$(A$,2);MID$(A$,1,2);RIGHT$(A$,1);LEN(A$);CHR$(65);ASC(A$)",
        "PRINT FNA(1);TAB(5);SPC(2);POS(0)",
        "I=I+1:J$=\"x\"+J$:A(1)=2:B#=1D2:C!=1E2",
        "IF I<=2 THEN PRINT \"y\" ELSE PRINT \"n\"",
        "IF I>=2 THEN 10 ELSE 20",
        "IF I<>2 GOTO 10",
        "FOR I=1 TO 10 STEP 2:NEXT I",
        "FOR J=10 TO 1 STEP -1:NEXT J,I",
        "WHILE I<3:I=I+1:WEND",
        "GOTO 10",
        "GOSUB 10:RETURN",
        "ON I GOTO 10,20",
        "ON I GOSUB 10,20",
        "INPUT \"p\";A,B$",
        "INPUT A%",
        "READ A,B$:DATA 1,\"x\"",
        "RESTORE 10:RESTORE",
        "DIM A(10),B$(2,3):ERASE A",
        "DEF FNA(X)=X*2",
        "DEFINT A-C:DEFSTR S:DEFDBL D:DEFSNG E-F",
        "SWAP A,B",
        "MID$(A$,2,1)=\"z\"",
        "CLEAR:CLS:END",
        "STOP:TRON:TROFF",
        "REM keep This text",
        "PRINT \"keep This text\":REM and ' this",
        "LIST 10-20:DELETE 10:RENUM 100,10,5",
        "RUN 10",
        "LOAD \"f\":SAVE \"g\"",
        "CONT:NEW",
        "PRINT 1E5E5;1D5D5;1E5;E;2D2;D",
        "A=1E5:E5=2:D1=1D1",
        "PRINT &HFF;&H1A+&HA;&7+&17",
        "PRINT 1.5E+2;1.5E-2;.5D+1;5.D-1",
        "IF A THEN PRINT 1E2 ELSE PRINT 1D2",
        "IF A THEN PRINT 200*200 ELSE PRINT 20 EQV 3",
        "IF A THEN B=7 ELSE C=5 IMP 2:DATA 1",
        "FOR I=1 TO 20 STEP 2:PRINT I MOD 3 AND 1 OR 4 XOR 2:NEXT",
    ]
}

struct LangSweep {
    pairs: bool,
}

impl Sweep for LangSweep {
    fn name(&self) -> String {
        format!("statement-kinds-{}", if self.pairs { "pairs" } else { "single" })
    }
    fn shards(&self) -> usize {
        language_lines().len()
    }
    fn run_shard(&self, shard: usize, ctx: &mut Ctx) {
        let l = language_lines()[shard];
        check_line(100, l, self.pairs, ctx);
    }
}

/// every line of the program space, listing comparison only (cheap), all pairs
fn judge_listing(pairs: bool) -> impl Fn(&Prog, &mut Ctx) + Sync + Send {
    move |p: &Prog, ctx: &mut Ctx| {
        // each distinct line once per program: only the last line (earlier
        // lines were covered as last lines of shorter compositions)
        if let Some(l) = p.lines.last() {
            check_line(l.num, &render_stmts(&l.stmts), pairs, ctx);
        }
    }
}

fn psweep(label: &str, n: usize, level: Level, j: super::progspace::Judge) -> Box<dyn Sweep> {
    Box::new(ProgSweep { label: label.into(), n, level, judge: j, verdict_on_crash: false })
}

/// Crunched spellings: lines whose blanks all sit between words, numbers and
/// identifiers. With any subset of those blanks removed (and in lower case)
/// the line must list *exactly* like the spaced spelling - the lister puts the
/// blank back around every keyword and word operator - and parse to the same
/// statements.
struct Crunched;

const CRUNCH_LINES: [&str; 22] = [
    // the same word twice in one run of letters, two-letter words next to suffixed names, radix literals
    "IF A AND B AND C THEN 10",
    "PRINT A OR B OR C;A MOD B MOD C",
    "IF NOT A AND NOT B THEN 10",
    "IF A$=B$ OR B!=2 THEN 10",
    "FOR I%=1 TO N%:NEXT I%",
    "ON K% GOTO 10,20",
    "PRINT &HFF;A AND &17",
    "FOR I=&H1 TO &H3 STEP &1:NEXT",
    "PRINT J MOD K;17 MOD I",
    "PRINT A AND B OR C XOR Q IMP E EQV NOT F",
    "FOR I=1 TO 9 STEP 2:NEXT I",
    "IF A THEN 10 ELSE 20",
    "IF A THEN PRINT B ELSE PRINT C",
    "ON A GOTO 10,20",
    "ON A GOSUB 10,20",
    "WHILE A:WEND",
    "DEF FNA(X)=X MOD 2",
    "INPUT A,B$",
    "READ A:RESTORE 10:DATA 1",
    "SWAP A,B:ERASE C:DIM Q(3)",
    "LET A=B OR C",
    "GOSUB 10:RETURN",
];

impl Sweep for Crunched {
    fn name(&self) -> String {
        "crunched-spellings-list-exactly".into()
    }
    fn shards(&self) -> usize {
        CRUNCH_LINES.len()
    }
    fn run_shard(&self, shard: usize, ctx: &mut Ctx) {
        let canon = format!("10 {}", CRUNCH_LINES[shard]);
        let body = CRUNCH_LINES[shard];
        let blanks: Vec<usize> = body.char_indices().filter(|(_, c)| *c == ' ').map(|(i, _)| i).collect();
        for mask in 1u32..(1 << blanks.len()) {
            for lower in [false, true] {
                let mut v = String::new();
                for (i, c) in body.char_indices() {
                    if let Some(k) = blanks.iter().position(|b| *b == i) {
                        if mask & (1 << k) != 0 {
                            continue;
                        }
                    }
                    v.push(if lower { c.to_ascii_lowercase() } else { c });
                }
                let vline = format!("10 {}", v);
                if !ctx.begin(&format!("{}  ~~[crunched]~~>  {}", canon, vline)) {
                    continue;
                }
                let r = guard(|| (BLine::new(&canon).to_string(), BLine::new(&vline).to_string()));
                match r {
                    Err(p) => ctx.violation("crunched/panic", p),
                    Ok((a, b)) => {
                        ctx.nontrivial(hash64(&(shard, mask)));
                        if a != canon {
                            ctx.skip("canonical spelling is not what LIST shows (harness)");
                        } else if a != b {
                            ctx.violation("crunched/lists-differently", format!("{:?} lists as {:?}, the spaced spelling as {:?}", vline, b, a));
                        } else if let (Ok(x), Ok(y)) = (ast_of(&canon), ast_of(&vline)) {
                            if x != y {
                                ctx.violation("crunched/parses-differently", format!("{:?} parses to {}, the spaced spelling to {}", vline, y, x));
                            }
                        }
                    }
                }
            }
        }
        ctx.sample();
    }
}

impl Check for C16 {
    fn id(&self) -> &'static str {
        "C16"
    }
    fn sweeps(&self, tier: Tier) -> Vec<Box<dyn Sweep>> {
        match tier {
            Tier::Quick => vec![
                Box::new(LangSweep { pairs: true }),
                Box::new(Crunched),
                psweep("listing-pairs", 1, Level::Full, Box::new(judge_listing(true))),
                psweep("listing-pairs", 2, Level::Medium, Box::new(judge_listing(true))),
                psweep("run-single", 1, Level::Full, Box::new(judge(false))),
                psweep("run-single", 2, Level::Medium, Box::new(judge(false))),
            ],
            Tier::Thorough => vec![
                Box::new(LangSweep { pairs: true }),
                Box::new(Crunched),
                psweep("listing-pairs", 1, Level::Full, Box::new(judge_listing(true))),
                psweep("listing-pairs", 2, Level::Full, Box::new(judge_listing(true))),
                psweep("listing-pairs", 3, Level::Medium, Box::new(judge_listing(true))),
                psweep("run-pairs", 1, Level::Full, Box::new(judge(true))),
                psweep("run-single", 2, Level::Full, Box::new(judge(false))),
                psweep("run-single", 3, Level::Core, Box::new(judge(false))),
            ],
        }
    }
    fn meta(&self, tier: Tier) -> Meta {
        Meta {
            bound: match tier {
                Tier::Quick => "35 lines covering every statement kind and literal form, and every last line of the programs with N=1 (full alphabet) and N=2 (medium): all single and all pairs of spelling deviations (per token: lower / alternating case; per gap: 0, 1, 2 blanks where optional; aliases ?, ', GO TO, GO SUB, LET, =<, =>, blanks (also a blank and a tab mixed) inside <=, >=, <>, GO TO, GO SUB; lower-case exponent and radix letters) compared by listing; every single deviation of every line of N=1 full and N=2 medium programs also compared by running".into(),
                Tier::Thorough => "as quick, with listing pairs up to N=2 full / N=3 medium, run comparison with pairs at N=1, singles at N=2 full and N=3 core".into(),
            },
            rule: "a case is (line, deviation set); distinct_nontrivial = distinct (deviation name, expected listing or baseline transcript)".into(),
            states_note: "differential: canonical vs variant on the implementation; transitions = cases".into(),
            assumptions: vec![
                "a blank is treated as optional only where the property says so: between a keyword and an adjacent identifier (I, J) or number, around punctuation/operators/strings; never inside identifiers, numbers, strings or remarks".into(),
                "expected listing = canonical text, except that an added LET and the ' remark marker are kept".into(),
            ],
        }
    }
}
