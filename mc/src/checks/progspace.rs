//! The bounded program space shared by C01, C13, C16, C18, C19 and C20
//! (DESIGN.md §2.1): all programs of N statements from a statement alphabet,
//! in every composition over consecutive lines.

use crate::engine::{Ctx, Sweep};
use crate::gen::*;
use crate::refmodel::value::{BinOp, V};

#[derive(Clone, Copy, PartialEq, Eq, Debug)]
pub enum Level {
    Core,
    Medium,
    Full,
    /// control-flow core plus DATA/READ/RESTORE, DEF FN, arrays, strings, SWAP,
    /// CLEAR, ERASE, INPUT: the features compose with each other
    Mixed,
}

impl Level {
    pub fn name(self) -> &'static str {
        match self {
            Level::Core => "core",
            Level::Medium => "medium",
            Level::Full => "full",
            Level::Mixed => "mixed",
        }
    }
}

pub fn marker() -> Stmt {
    Stmt::Print(vec![PItem::E(strlit("?")), PItem::Semi])
}
fn i_lt_2() -> Expr {
    bin(BinOp::Lt, var("I"), int(2))
}
fn let_i_plus_1() -> Stmt {
    Stmt::Let(LVal::Var("I".into()), bin(BinOp::Add, var("I"), int(1)))
}
fn for_(v: &str, a: i16, b: i16, z: Option<i16>) -> Stmt {
    Stmt::For(v.into(), int(a), int(b), z.map(int))
}

/// Statement alphabet for a program whose lines are 10, 20, .., 10*k.
pub fn alphabet(level: Level, k: usize) -> Vec<Stmt> {
    alphabet_at(level, k, 10)
}

/// Statement alphabet for a program whose lines are base, base+10, ..
pub fn alphabet_at(level: Level, k: usize, base: u16) -> Vec<Stmt> {
    let lines: Vec<u16> = (0..k as u16).map(|i| base + i * 10).collect();
    let first = lines[0];
    let last = *lines.last().unwrap();
    let absent = base + (k as u16) * 10;
    let mut a: Vec<Stmt> = vec![];
    if level == Level::Mixed {
        return mixed_alphabet(first, last);
    }
    let full = level == Level::Full;
    let med = level != Level::Core;
    a.push(marker());
    a.push(let_i_plus_1());
    for &t in &lines {
        a.push(Stmt::Goto(t));
    }
    for &t in &lines {
        a.push(Stmt::Gosub(t));
    }
    a.push(Stmt::Return);
    a.push(Stmt::OnGoto(var("I"), vec![first, last]));
    a.push(Stmt::OnGosub(var("I"), vec![first, last]));
    for &t in &lines {
        a.push(Stmt::If(i_lt_2(), Branch::Line(t), None));
    }
    a.push(Stmt::If(i_lt_2(), Branch::Stmts(vec![marker()]), Some(Branch::Stmts(vec![marker()]))));
    a.push(for_("I", 1, 2, None));
    a.push(Stmt::Next(vec![]));
    a.push(Stmt::While(i_lt_2()));
    a.push(Stmt::Wend);
    a.push(Stmt::End);
    a.push(Stmt::Stop);
    if med {
        a.push(Stmt::Print(vec![PItem::E(var("I")), PItem::Semi]));
        a.push(Stmt::Print(vec![]));
        a.push(Stmt::Let(LVal::Var("I".into()), int(0)));
        a.push(Stmt::Let(LVal::Var("I".into()), int(2)));
        a.push(Stmt::Goto(absent));
        for s in [0i16, 2, 3, -1] {
            a.push(Stmt::OnGoto(int(s), vec![first, last]));
            a.push(Stmt::OnGosub(int(s), vec![first, last]));
        }
        a.push(Stmt::If(var("I"), Branch::Line(last), Some(Branch::Line(first))));
        a.push(Stmt::IfGoto(i_lt_2(), last, None));
        for s in [
            let_i_plus_1(),
            Stmt::Goto(first),
            Stmt::Gosub(last),
            Stmt::Return,
            Stmt::Next(vec![]),
            Stmt::End,
            Stmt::OnGoto(var("I"), vec![first, last]),
        ] {
            a.push(Stmt::If(i_lt_2(), Branch::Stmts(vec![s.clone()]), None));
            a.push(Stmt::If(i_lt_2(), Branch::Stmts(vec![marker()]), Some(Branch::Stmts(vec![s.clone()]))));
            a.push(Stmt::If(i_lt_2(), Branch::Stmts(vec![s.clone()]), Some(Branch::Stmts(vec![marker()]))));
        }
        a.push(Stmt::If(i_lt_2(), Branch::Stmts(vec![marker(), let_i_plus_1()]), None));
        a.push(for_("I", 2, 1, None));
        a.push(for_("I", 3, 1, Some(-1)));
        a.push(for_("J", 1, 2, None));
        a.push(Stmt::Next(vec!["I".into()]));
        a.push(Stmt::Next(vec!["J".into(), "I".into()]));
        a.push(Stmt::While(int(0)));
        a.push(Stmt::Tron);
        a.push(Stmt::Input(None, vec![LVal::Var("I".into())]));
        a.push(Stmt::Rem("X".into()));
    }
    if full {
        a.push(Stmt::Let(LVal::Var("J".into()), var("I")));
        a.push(Stmt::Let(LVal::Var("J".into()), bin(BinOp::Add, var("J"), int(1))));
        a.push(Stmt::Gosub(absent));
        for s in [1i16] {
            a.push(Stmt::OnGoto(int(s), vec![first, last]));
            a.push(Stmt::OnGosub(int(s), vec![first, last]));
        }
        a.push(Stmt::OnGoto(var("I"), vec![last]));
        a.push(Stmt::OnGosub(var("I"), vec![last, first, last]));
        for &t in &lines {
            a.push(Stmt::If(var("I"), Branch::Line(t), Some(Branch::Line(first))));
            a.push(Stmt::IfGoto(int(0), t, Some(Branch::Stmts(vec![marker()]))));
        }
        a.push(Stmt::If(bin(BinOp::Eq, var("I"), int(1)), Branch::Stmts(vec![marker()]), None));
        for s in [
            Stmt::Wend,
            Stmt::While(i_lt_2()),
            for_("I", 1, 2, None),
            Stmt::Stop,
            Stmt::OnGosub(var("I"), vec![first, last]),
            Stmt::Input(None, vec![LVal::Var("I".into())]),
            Stmt::Tron,
        ] {
            a.push(Stmt::If(i_lt_2(), Branch::Stmts(vec![s.clone()]), None));
            a.push(Stmt::If(int(0), Branch::Stmts(vec![marker()]), Some(Branch::Stmts(vec![s.clone()]))));
            a.push(Stmt::If(i_lt_2(), Branch::Stmts(vec![s.clone()]), Some(Branch::Stmts(vec![marker()]))));
        }
        for s in [let_i_plus_1(), Stmt::Gosub(last), Stmt::Next(vec![])] {
            a.push(Stmt::If(i_lt_2(), Branch::Stmts(vec![s.clone(), marker()]), None));
            a.push(Stmt::If(i_lt_2(), Branch::Stmts(vec![s.clone(), marker()]), Some(Branch::Stmts(vec![marker()]))));
        }
        // branches of several statements that allocate labels of their own and end the run
        let loop_then_end = vec![for_("J", 1, 1, None), Stmt::Next(vec![]), Stmt::End];
        a.push(Stmt::If(i_lt_2(), Branch::Stmts(loop_then_end.clone()), None));
        a.push(Stmt::If(i_lt_2(), Branch::Stmts(vec![marker()]), Some(Branch::Stmts(loop_then_end))));
        a.push(Stmt::If(i_lt_2(), Branch::Stmts(vec![Stmt::Gosub(first), Stmt::End]), None));
        a.push(Stmt::If(i_lt_2(), Branch::Stmts(vec![marker(), Stmt::Gosub(last), Stmt::Stop]), Some(Branch::Stmts(vec![Stmt::Gosub(last), Stmt::End]))));
        // nested IF: ELSE binds to the nearest IF
        a.push(Stmt::If(
            i_lt_2(),
            Branch::Stmts(vec![Stmt::If(var("I"), Branch::Stmts(vec![marker()]), Some(Branch::Stmts(vec![marker()])))]),
            None,
        ));
        a.push(Stmt::If(
            i_lt_2(),
            Branch::Stmts(vec![Stmt::If(var("I"), Branch::Stmts(vec![marker()]), Some(Branch::Stmts(vec![marker()])))]),
            Some(Branch::Stmts(vec![marker()])),
        ));
        a.push(Stmt::If(
            int(0),
            Branch::Stmts(vec![marker()]),
            Some(Branch::Stmts(vec![Stmt::If(var("I"), Branch::Line(first), Some(Branch::Stmts(vec![marker()])))])),
        ));
        a.push(for_("I", 1, 3, Some(2)));
        // a step of exactly 0: ascending rule (never past the limit / past it after the first pass)
        a.push(for_("I", 1, 3, Some(0)));
        a.push(for_("I", 3, 1, Some(0)));
        a.push(Stmt::For("J".into(), var("I"), int(2), None));
        a.push(Stmt::Next(vec!["J".into()]));
        a.push(Stmt::Next(vec!["I".into(), "J".into()]));
        a.push(Stmt::While(var("I")));
        a.push(Stmt::Troff);
        a.push(Stmt::Empty);
        a.push(Stmt::Input(Some("Q".into()), vec![LVal::Var("J".into())]));
    }
    a
}

fn mixed_alphabet(first: u16, last: u16) -> Vec<Stmt> {
    let lv = |n: &str| LVal::Var(n.into());
    let pr = |items: Vec<Expr>| {
        let mut v = vec![];
        for e in items {
            v.push(PItem::E(e));
            v.push(PItem::Semi);
        }
        Stmt::Print(v)
    };
    let fna = |e: Expr| Expr::Fn("FNA".into(), vec![e]);
    vec![
        marker(),
        let_i_plus_1(),
        Stmt::Goto(last),
        Stmt::Gosub(last),
        Stmt::Return,
        Stmt::If(i_lt_2(), Branch::Line(first), None),
        for_("I", 1, 2, None),
        Stmt::Next(vec![]),
        Stmt::End,
        Stmt::Stop,
        Stmt::OnGosub(var("I"), vec![first, last]),
        // DATA / READ / RESTORE
        Stmt::Data(vec![int(1), int(2)]),
        Stmt::Data(vec![strlit("s"), int(3)]),
        Stmt::Read(vec![lv("I")]),
        Stmt::Read(vec![lv("J"), lv("A$")]),
        Stmt::Restore(None),
        Stmt::Restore(Some(last)),
        // user functions
        Stmt::Def("FNA".into(), vec!["X".into()], bin(BinOp::Add, var("X"), var("I"))),
        Stmt::Def("FNA".into(), vec!["I".into()], bin(BinOp::Mul, var("I"), int(2))),
        pr(vec![fna(var("I"))]),
        Stmt::Let(lv("I"), fna(int(1))),
        // arrays
        Stmt::Dim(vec![("A".into(), vec![int(2)])]),
        Stmt::Let(LVal::Arr("A".into(), vec![var("I")]), bin(BinOp::Add, var("I"), int(1))),
        pr(vec![Expr::Arr("A".into(), vec![var("I")]), Expr::Arr("A".into(), vec![int(1)])]),
        Stmt::Erase(vec!["A".into()]),
        // strings
        Stmt::Let(lv("A$"), bin(BinOp::Add, var("A$"), strlit("x"))),
        pr(vec![var("A$"), Expr::Call("LEN".into(), vec![var("A$")])]),
        // whole-store statements
        Stmt::Swap(lv("I"), lv("J")),
        Stmt::Clear,
        pr(vec![var("I"), var("J")]),
        Stmt::Input(None, vec![lv("I")]),
        Stmt::If(var("J"), Branch::Stmts(vec![Stmt::Read(vec![lv("I")])]), Some(Branch::Stmts(vec![Stmt::Restore(None)]))),
    ]
}

/// Give every marker PRINT a letter unique to its position.
pub fn assign_markers(p: &mut Prog) {
    fn walk(v: &mut [Stmt], k: &mut u8) {
        for s in v.iter_mut() {
            match s {
                Stmt::Print(items) => {
                    if let Some(PItem::E(Expr::Lit(V::Str(t), sp))) = items.first_mut() {
                        if t.len() == 1 && t[0] == '?' {
                            let c = (b'a' + *k) as char;
                            *k += 1;
                            *t = vec![c];
                            *sp = format!("\"{}\"", c);
                        }
                    }
                }
                Stmt::If(_, t, e) => {
                    if let Branch::Stmts(v) = t {
                        walk(v, k);
                    }
                    if let Some(Branch::Stmts(v)) = e {
                        walk(v, k);
                    }
                }
                Stmt::IfGoto(_, _, Some(Branch::Stmts(v))) => walk(v, k),
                _ => {}
            }
        }
    }
    let mut k = 0u8;
    for l in p.lines.iter_mut() {
        walk(&mut l.stmts, &mut k);
    }
}

pub type Judge = Box<dyn Fn(&Prog, &mut Ctx) + Sync + Send>;

/// All programs of exactly `n` statements over alphabet `level`.
pub struct ProgSweep {
    pub label: String,
    pub n: usize,
    pub level: Level,
    pub judge: Judge,
    pub verdict_on_crash: bool,
}

impl ProgSweep {
    /// number of the first line: 0 for sweeps labelled "...-from-line-0"
    fn base(&self) -> u16 {
        if self.label.ends_with("-from-line-0") {
            0
        } else {
            10
        }
    }
    fn masks(&self) -> u32 {
        1 << (self.n - 1)
    }
}

impl Sweep for ProgSweep {
    fn name(&self) -> String {
        format!("{}-N{}-{}", self.label, self.n, self.level.name())
    }
    fn shards(&self) -> usize {
        // (mask, index of first statement); alphabet size depends on the mask
        let mut total = 0;
        for m in 0..self.masks() {
            total += alphabet_at(self.level, lines_of_mask(self.n, m), self.base()).len();
        }
        total
    }
    fn crash_is_verdict(&self) -> bool {
        self.verdict_on_crash
    }
    fn run_shard(&self, shard: usize, ctx: &mut Ctx) {
        let mut rest = shard;
        let mut mask = 0;
        let mut alpha = vec![];
        for m in 0..self.masks() {
            alpha = alphabet_at(self.level, lines_of_mask(self.n, m), self.base());
            if rest < alpha.len() {
                mask = m;
                break;
            }
            rest -= alpha.len();
        }
        let first = rest;
        let a = alpha.len();
        let total = a.pow(self.n as u32 - 1);
        let mut stmts: Vec<Stmt> = vec![alpha[first].clone(); self.n];
        for idx in 0..total {
            let mut x = idx;
            for pos in (1..self.n).rev() {
                stmts[pos] = alpha[x % a].clone();
                x /= a;
            }
            if let Some(mut p) = compose(&stmts, mask, self.base(), 10) {
                assign_markers(&mut p);
                (self.judge)(&p, ctx);
                if ctx.done() {
                    return;
                }
            }
        }
    }
}

// ------------------------------------------------------------------ skeletons

fn lit_line(num: u16, stmts: Vec<Stmt>) -> Line {
    Line { num, stmts }
}
fn let_(v: &str, e: Expr) -> Stmt {
    Stmt::Let(LVal::Var(v.into()), e)
}

/// Five fixed control-flow skeletons (DESIGN.md §2.1) with two holes each.
/// Returns None when a filling is not a legal line (an IF must end its list).
pub fn skeleton(which: usize, h1: &Stmt, h2: &Stmt) -> Option<Prog> {
    let i_plus = let_i_plus_1();
    let lines = match which {
        // subroutine called from a loop
        0 => {
            if h1.must_end_line() || h2.must_end_line() {
                return None;
            }
            vec![
                lit_line(10, vec![for_("I", 1, 2, None), Stmt::Gosub(30), Stmt::Next(vec![])]),
                lit_line(20, vec![marker(), Stmt::End]),
                lit_line(30, vec![h1.clone(), h2.clone(), Stmt::Return]),
            ]
        }
        // loop left early by GOTO and re-entered
        1 => {
            if h1.must_end_line() || h2.must_end_line() {
                return None;
            }
            vec![
                lit_line(10, vec![for_("I", 1, 3, None), h1.clone(), Stmt::If(bin(BinOp::Eq, var("I"), int(2)), Branch::Line(30), None)]),
                lit_line(20, vec![Stmt::Next(vec![]), marker(), Stmt::End]),
                lit_line(30, vec![h2.clone(), marker(), Stmt::Goto(20)]),
            ]
        }
        // nested FOR with shared NEXT
        2 => {
            if h2.must_end_line() {
                return None;
            }
            vec![
                lit_line(10, vec![for_("I", 1, 2, None), for_("J", 1, 2, None), h1.clone()]),
                lit_line(20, vec![h2.clone(), Stmt::Next(vec!["J".into(), "I".into()])]),
                lit_line(30, vec![marker()]),
            ]
        }
        // WHILE containing IF..ELSE
        3 => {
            if h1.must_end_line() {
                return None;
            }
            vec![
                lit_line(
                    10,
                    vec![
                        Stmt::While(bin(BinOp::Lt, var("I"), int(3))),
                        i_plus.clone(),
                        Stmt::If(bin(BinOp::Eq, var("I"), int(2)), Branch::Stmts(vec![h1.clone()]), Some(Branch::Stmts(vec![h2.clone()]))),
                    ],
                ),
                lit_line(20, vec![marker(), Stmt::Wend]),
                lit_line(30, vec![marker()]),
            ]
        }
        // ON..GOSUB dispatcher
        _ => {
            if h1.must_end_line() || h2.must_end_line() {
                return None;
            }
            vec![
                lit_line(
                    10,
                    vec![
                        i_plus.clone(),
                        Stmt::OnGosub(var("I"), vec![30, 40]),
                        h1.clone(),
                        Stmt::If(bin(BinOp::Lt, var("I"), int(3)), Branch::Line(10), None),
                    ],
                ),
                lit_line(20, vec![marker(), Stmt::End]),
                lit_line(30, vec![h2.clone(), Stmt::Return]),
                lit_line(40, vec![marker(), Stmt::Return]),
            ]
        }
    };
    let mut p = Prog { lines };
    assign_markers(&mut p);
    Some(p)
}

pub const SKELETONS: usize = 5;

/// Every two-statement filling of the holes of every skeleton.
pub struct SkeletonSweep {
    pub label: String,
    pub level: Level,
    pub judge: Judge,
}

impl Sweep for SkeletonSweep {
    fn name(&self) -> String {
        format!("{}-skeletons-{}", self.label, self.level.name())
    }
    fn shards(&self) -> usize {
        SKELETONS * alphabet(self.level, 3).len()
    }
    fn run_shard(&self, shard: usize, ctx: &mut Ctx) {
        let a = alphabet(self.level, 3);
        let which = shard / a.len();
        let h1 = &a[shard % a.len()];
        for h2 in &a {
            if let Some(p) = skeleton(which, h1, h2) {
                (self.judge)(&p, ctx);
                if ctx.done() {
                    return;
                }
            }
        }
    }
}
