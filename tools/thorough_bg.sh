#!/bin/bash
# thorough_bg.sh [ID...]: time the thorough tier of every (or the given) check with a private copy of the
# current harness binary and a private VERIF_ROOT, so that it can run (e.g. under `vp run`) while /verif is
# being edited and rebuilt. Timings only - evidence for /verif is written by bin/check, not by this.
IDS="$@"; [ -z "$IDS" ] && IDS="C07 C10 C19 C15 C02 C08 C11 C17 C09 C18 C16 C14 C12 C20 C13 C04 C05 C06 C01 C03"
ROOT=/tmp/thorough-root; mkdir -p $ROOT/evidence; cp /verif/known_findings.json $ROOT/
# rebuild first: the binary in target/ may stem from a seeded (patched) /repo tree that has been restored since
if [ -n "$(git -C /repo status --porcelain -- src)" ]; then echo "/repo/src is not clean"; exit 2; fi
(cd /verif/mc && CARGO_NET_OFFLINE=true cargo build --release --offline -q) || exit 2
cp /verif/mc/target/release/mc $ROOT/mc || exit 2
for id in $IDS; do
  s=$(date +%s.%N)
  VERIF_ROOT=$ROOT /usr/bin/time -f "%M" -o $ROOT/rss $ROOT/mc check $id thorough > $ROOT/$id.log 2>&1; rc=$?
  e=$(date +%s.%N)
  printf "%s thorough rc=%d wall=%.1fs rss=%sKB kf=%d viol=%d\n" $id $rc $(echo "$e - $s" | bc) "$(tail -1 $ROOT/rss)" \
    $(grep -c "^KNOWN-FINDING" $ROOT/$id.log) $(grep -c "^VIOLATION" $ROOT/$id.log)
done
