#!/bin/bash
# repo_commit.sh "<message>": commit the working-tree change in /repo only if the whole suite passes.
cd /repo || exit 2
OUT=$(cargo test --offline --workspace --no-fail-fast 2>&1)
N=$(echo "$OUT" | grep -E "^test result: ok" | sed -E 's/.*ok\. ([0-9]+) passed.*/\1/' | paste -sd+ | bc)
if echo "$OUT" | grep -q "FAILED" || [ "$N" != "95" ]; then echo "$OUT" | grep -E "FAILED|panicked" | head; echo "NOT COMMITTED ($N passed)"; exit 1; fi
git commit -qam "$1" && git log --oneline | head -1
