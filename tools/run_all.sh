#!/bin/bash
# run_all.sh <tier> [ID...]: run the registered check of every (or the given) property in turn,
# one line per property: exit code, wall seconds, peak RSS of the check process tree.
TIER="${1:-quick}"; shift
IDS="$@"; [ -z "$IDS" ] && IDS=$(seq -f "C%02g" 1 20)
cd /verif
for id in $IDS; do
  s=$(date +%s.%N)
  /usr/bin/time -f "%M" -o /tmp/run_all.rss bin/check $id $TIER > /tmp/run_all.$id.$TIER.log 2>&1; rc=$?
  e=$(date +%s.%N)
  printf "%s %s rc=%d wall=%.1fs rss=%sKB kf=%d viol=%d\n" $id $TIER $rc $(echo "$e - $s" | bc) "$(tail -1 /tmp/run_all.rss)" \
    $(grep -c "^KNOWN-FINDING" /tmp/run_all.$id.$TIER.log) $(grep -c "^VIOLATION" /tmp/run_all.$id.$TIER.log)
done
