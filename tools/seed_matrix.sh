#!/bin/bash
# seed_matrix.sh [tier]: run every seed in /verif/seeded against the check of its own property
# (plus extra checks listed in seeded/<name>/also) and (re)write seeded/<name>/meta.json.
TIER="${1:-quick}"
cd /verif
for d in seeded/*/; do
  n=$(basename $d); id=${n%[a-z]}
  # ONLY_MISSING=1: only the seeds that have no meta.json yet
  if [ -n "${ONLY_MISSING:-}" ] && [ -f $d/meta.json ]; then continue; fi
  extra=""; [ -f $d/also ] && extra=$(cat $d/also)
  line=$(tools/seed_run.sh $n $TIER $id $extra 2>&1 | tail -1)
  echo "$line"
  python3 - "$n" "$id" "$line" "$TIER" <<'PY'
import json,sys,os,re
n,idp,line,tier=sys.argv[1:5]
d=f"/verif/seeded/{n}"
agent={}
try: agent=json.load(open(f"{d}/agent_meta.json"))
except Exception: pass
det={}
for m in re.finditer(r"(C\d\d):rc=(\d)\[([^\]]*)\]", line):
    det[m.group(1)]={"exit":int(m.group(2)),"signatures":[s for s in m.group(3).split(",") if s]}
meta={"property":idp,"summary":agent.get("summary",""),"needs":agent.get("needs",""),
      "origin":"independent sub-agent given only the property text and a scratch worktree",
      "verified":open(f"{d}/verify.txt").read().strip() if os.path.exists(f"{d}/verify.txt") else "",
      "ran":f"tools/seed_run.sh {n} {tier} ... (git apply patch.diff in /repo, bin/check, git reset --hard)",
      "detected_by":{k:v for k,v in det.items() if v["exit"]==1},
      "not_detected_by":[k for k,v in det.items() if v["exit"]!=1]}
json.dump(meta,open(f"{d}/meta.json","w"),indent=1)
PY
done
