#!/usr/bin/env python3
"""Regenerates /verif/MANIFEST.json from the table below (one place to edit)."""
import json, subprocess

HOOK_COMMITS = ["630d187"]

# id -> (technique, level text, level note, design ref)
CHECKS = {
    "C01": (
        "exhaustive enumeration of all programs up to N statements (every composition over lines, three entry modes, all reply scripts) executed on the real interpreter in lockstep with a reference statement interpreter",
        "Every program of the bounded space (quick: N<=2 full alphabet, N=3 medium, N=4 core; thorough: N<=3 full, N=4 medium, N=5 core) is run through lexer, parser, codegen, linker and VM and its transcript (output, trace brackets, prompts, terminating condition with line) compared with a reference interpreter written from the manual; smallest counterexample first. Exhaustive within the bound (small-scope hypothesis for larger programs).",
        "Trusts the reference interpreter (refmodel/interp.rs) as the reading of the manual; programs it marks undefined are skipped and counted; diverging programs are compared on a prefix.",
        "DESIGN.md §3 C01",
    ),
    "C08": (
        "exhaustive enumeration of operand tuples (all 2^32 pairs per operator in the thorough tier) on the real Operation/Function entry points and through the VM, against an exact-arithmetic reference",
        "Every Integer operator is run on every operand pair of the stated bound (quick: every row/column through 65 boundary values, all 65536 unary operands; thorough: all 2^32 pairs) and compared with exact i64 arithmetic; a wrapped value, a wrong error or a panic on any pair is reported. Exhaustive within the bound, which for the thorough tier is the whole input space of the property.",
        "Trusts the harness's i64 reference (truncating division, sign-of-dividend MOD) and that VM dispatch adds nothing beyond what the boundary pairs through the interpreter exercise.",
        "DESIGN.md §3 C08",
    ),
}

NOT_BUILT = {}

def main():
    props = [json.loads(l) for l in open("/verif/properties.jsonl")]
    checks = []
    na = []
    for p in props:
        pid = p["id"]
        if pid in CHECKS:
            tech, text, note, ref = CHECKS[pid]
            checks.append({
                "property_id": pid,
                "quick_cmd": f"bin/check {pid} quick",
                "thorough_cmd": f"bin/check {pid} thorough",
                "evidence_file": f"/verif/evidence/{pid}.json",
                "replay_cmd_template": "bin/replay {path}",
                "engine": "mc",
                "level_claimed": {"category": "model_checking", "text": text, "design_ref": ref},
                "level_note": note,
                "technique": tech,
            })
        else:
            na.append({"property_id": pid, "reason": NOT_BUILT.get(pid, "check not built yet in this harness (no technique limitation; see DESIGN.md §8) — not claimed until it exists")})
    m = {
        "version": 1,
        "setup_cmd": "cd /verif/mc && CARGO_NET_OFFLINE=true cargo build --release --offline",
        "hooks": {
            "guard": "cargo feature `verif` of basic-lang",
            "enable": "the harness crate /verif/mc depends on basic-lang by path=/repo with features=[\"verif\"]; `bin/check` rebuilds both from the working tree on every run",
            "baseline_off_cmd": "cd /repo && cargo test --workspace --no-fail-fast --offline",
            "source_commits": HOOK_COMMITS,
            "add_only": True,
        },
        "engines": [{
            "name": "mc",
            "path": "/verif/mc",
            "serves_properties": sorted(CHECKS.keys()),
            "kind_free_text": "Rust harness: sharded exhaustive enumerator (E-enum), subprocess-isolated sweeps with watchdog (E-sweep) and explicit-state breadth-first search over session histories with full-state digests (E-space), all executing the real basic-lang crate and judged by harness reference models or differential relations",
        }],
        "checks": checks,
        "not_applicable": na,
        "notes": "Exit codes: 0 held / 1 VIOLATION line(s) / 2 machinery failure. Known findings: /verif/known_findings.json. VERIF_SEED only permutes shard order.",
    }
    json.dump(m, open("/verif/MANIFEST.json", "w"), indent=1)
    print("checks:", len(checks), "not_applicable:", len(na))

main()
