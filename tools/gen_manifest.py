#!/usr/bin/env python3
"""Regenerates /verif/MANIFEST.json from the table below (one place to edit)."""
import json, subprocess

HOOK_COMMITS = ["630d187", "016cd5f"]

# id -> (technique, level text, level note, design ref)
CHECKS = {
    "C01": (
        "exhaustive enumeration of all programs up to N statements (every composition over lines, three entry modes, all reply scripts) executed on the real interpreter in lockstep with a reference statement interpreter",
        "Every program of the bounded space (quick: N<=2 full alphabet, N=3 medium, N=4 core, N<=3 over a 32-statement mixed-feature alphabet with DATA/READ/RESTORE, DEF FN, arrays, strings, SWAP, CLEAR, ERASE, INPUT; thorough: N<=3 full, N=4 medium, N=5 core, N=4 mixed) is run through lexer, parser, codegen, linker and VM and its transcript (output, trace brackets, prompts, terminating condition with line) compared with a reference interpreter written from the manual; smallest counterexample first. Exhaustive within the bound (small-scope hypothesis for larger programs).",
        "Trusts the reference interpreter (refmodel/interp.rs) as the reading of the manual; programs it marks undefined are skipped and counted; diverging programs are compared on a prefix.",
        "DESIGN.md §3 C01",
    ),
    "C02": (
        "exhaustive enumeration of the operator x operand-type matrix over boundary values, of all operator pairs/triples in all tree shapes and parenthesisations, and of all short literal spellings, executed on the real Operation/Function entry points, parser and interpreter against a reference evaluator",
        "Every binary/unary operator is applied to every ordered pair of 51 boundary values of the four types (incl. infinities and Doubles within Single resolution of a whole number) (result type = returned variant, compared exactly; through PRINT with two type probes); every relational operator must answer what its mirror image answers (a>=b and b<=a, ...) on all ordered pairs of 15 operands incl. not-a-number expressions, through the API, PRINT, variables and IF; every ordered pair (and triple) of operators is evaluated in every tree shape with minimal and full parentheses; every literal spelling up to 6/7 characters that the manual classifies, and structured long spellings (1-9 mantissa digits x point position x 14 exponent spellings x suffix), are checked in the parsed statement; 14 numeric functions and assignment to each variable type. Exhaustive within these bounds.",
        "Reference evaluator refmodel/value.rs (manual chapter 1). Exactly rounded operations are compared bit for bit, ^ and transcendental functions within 600 ulp / underflow to zero accepted; = and <> of floats nearer than 4 epsilon are skipped (tolerant equality is the implementation's design); the ordering operators are judged exactly.",
        "DESIGN.md §3 C02",
    ),
    "C03": (
        "exhaustive enumeration of all short strings / token sequences / single-token corpus mutants / length-limit shapes entered into the real interpreter under a watchdog and subprocess isolation, plus explicit-state search of the UI calling protocol (enter, execute quanta, interrupt, listing snapshots, loads) with a full-state digest",
        "Every input of the stated bounded families is entered as a direct line, a stored line and a stored line followed by RUN; stored multi-byte lines are followed by every program-level command; every short reply over a multi-byte alphabet is given to multi-variable INPUT statements and INKEY$; cursor operations are run at columns up to 1024 of an unterminated output line; every history of the protocol machine (from the empty interpreter and from a stored program, interrupts also while input is awaited) up to depth 6 (quick) / 8 (thorough) is executed. On each: no panic or abort, every call returns (60 s watchdog, hangs and crashes attributed to one case by the parent process), and after at most one interrupt the interpreter is stopped and PRINT 1 works. Exhaustive within the bounds.",
        "Built with debug assertions and overflow checks on (a violated debug_assert counts as a panic). Inputs longer than the enumerated lengths are covered only by the periodic length-limit shapes. The terminal front end itself is not executed.",
        "DESIGN.md §3 C03",
    ),
    "C04": (
        "explicit-state breadth-first search over edit histories on the real Runtime (states deduplicated by a full-state digest, plus an undeduplicated cross-check), each RUN / resume transition compared with a fresh interpreter fed get_listing()",
        "All histories up to depth 4 (quick) / 5 (thorough) over 53 editing, running and resuming actions (line bodies include DELETE and NEW, so programs edit themselves), from the empty interpreter and from a program stopped inside a subroutine, are executed; on every RUN/RUN n, and on CONT/RETURN/NEXT/FN call right after an edit (typed or made by the running program), the transcript must equal that of a freshly started interpreter holding the current listing; non-editing direct statements must leave the listing unchanged. Exhaustive within the depth bound.",
        "State identity relies on hook verif_digest covering every future-relevant field; verdicts use only the public API. Histories deeper than the bound are not explored.",
        "DESIGN.md §3 C04",
    ),
    "C09": (
        "exhaustive enumeration of all programs of up to N lines over a DATA/READ/RESTORE line alphabet, in every order, under every history of a fixed set, executed on the real interpreter against the reference interpreter's DATA model",
        "All programs of 1..4 (thorough 5) lines over 20 line bodies (DATA forms incl. DATA behind another statement and inside IF, READ into every type, RESTORE / RESTORE n, loops), under 14 histories (fresh, RUN twice, CLEAR, direct READs, RUN n, edit of a DATA line, interrupted run, refused direct DATA, RENUM to small and to large line numbers, over-read then appended DATA, NEW then retyped), are run and compared with the reference. Exhaustive within the bound.",
        "Reference: flat constant list in source order; RESTORE n = first constant at or after line n; conversions as assignment.",
        "DESIGN.md §3 C09",
    ),
    "C10": (
        "exhaustive enumeration of definition family x calling context x argument tuple x perturbation, executed on the real interpreter against the reference interpreter (local parameter scope, call-time evaluation)",
        "17 numeric and 3 string definition families (parameters in every slot of nested calls and subscripts), 9 calling contexts, all argument tuples of a small set and 9 perturbations (globals changed after DEF, call before DEF, wrong arity, undefined function, call from direct mode, CLEAR between DEF and call, RUN then RUN <call line>) are combined exhaustively; sentinels named like parameters are printed afterwards; DEF in direct mode and three runaway recursions (OUT OF MEMORY, session survives) included.",
        "Line numbers of errors raised inside a function body are not compared (the manual does not attribute them).",
        "DESIGN.md §3 C10",
    ),
    "C11": (
        "exhaustive enumeration of print lists of a bounded grammar in sequences of up to three PRINT statements (optionally interleaved with INPUT, error, CLS, LIST, STOP, trace brackets, loops) against a reference cursor model, plus exhaustive / structured sweeps of number formatting",
        "Every print list of up to 3 items over 20 items x 3 separators x 3 trailings, every pair and triple of shorter statements, each followed by a probe (POS, comma zone, TAB), and 15 cursor operations at 20 columns up to 512 of an unterminated line, are executed and compared with the cursor model; all 65536 Integers, every sign/exponent of f32 with 81 mantissa patterns (thorough: all 2^32 f32 values) and a structured f64 set are formatted and must read back exactly with the minimal digit count.",
        "Reference refmodel/print.rs and the PRINT part of refmodel/interp.rs; positional vs E notation is not prescribed.",
        "DESIGN.md §3 C11",
    ),
    "C12": (
        "explicit-state breadth-first search over session prefixes (runs to completion / error / STOP / interrupted after k instructions, direct statements) for a family of programs, RUN and CLEAR/NEW+probes compared with a fresh interpreter",
        "For each of 13 programs every history up to 4 (quick) / 6 (thorough) actions from 32 (direct statements incl. ones that fail to compile or link, edits, interrupted runs) is executed; every RUN must equal RUN in a fresh interpreter with the current listing and CLEAR / NEW followed by 10 probe lines must equal the probes in a fresh interpreter. Exhaustive within the depth bound and the program family.",
        "Differential oracle (implementation from a history vs implementation from scratch); state identity by verif_digest; RND and TRON excluded as documented.",
        "DESIGN.md §3 C12",
    ),
    "C13": (
        "exhaustive enumeration of interruption points, STOP/END placements and execute-quantum schedules per program of a bounded family, compared with the quantum-1 baseline; macro-step confluence on the state digest",
        "For every program of the family (16 curated + the C01 space at small N) an interrupt is injected after every single-instruction call (also at a pending prompt), with and without a direct PRINT, then CONT (continued in single-instruction calls and in 5000-instruction calls); STOP and END are inserted before every statement; every uniform quantum, all two-phase schedules and all short mixed schedules are run; output and final variables must equal the uninterrupted quantum-1 run. Exhaustive over the stated schedules for the stated programs.",
        "Differential oracle against the quantum-1 run of the same implementation; the forced newline of BREAK/errors, READY and a re-issued prompt are normalised; programs using TRON are excluded from the CONT comparisons.",
        "DESIGN.md §3 C13",
    ),
    "C14": (
        "exhaustive enumeration of link-clean programs (all subsets of a line-number universe x all referencing statement forms and decoys) x RENUM argument triples, executed on the real interpreter against a reference renumbering",
        "Every program of 1..3 lines over the numbers {0,5,10,20,100,65529} with bodies from 32 templates (every referencing form, multi-byte prefixes, literals of every spelling before a reference, decoys) is renumbered with every argument triple of a boundary set (210; 36 for 3-line programs in quick); the listing afterwards must be unchanged when the request is invalid and equal to the reference renumbering otherwise; for programs of one and two lines, what runs after RENUM is compared with a fresh interpreter holding the new listing, and a short RUN before and after RENUM must behave alike up to line numbers; refusal cases (inside a program, compile errors, bad operands) included.",
        "Reference renumbering computed on the harness's own templates (reference slots are known positions, not columns).",
        "DESIGN.md §3 C14",
    ),
    "C15": (
        "explicit-state search of the complete store graph (all maps of a small line-number universe x all edit/LIST/DELETE actions) on the real Runtime against a BTreeMap reference",
        "All 243 (thorough: also 2187) stores over the universe are reached and from each every action (insert, bare number, LIST/DELETE in every operand form over boundary endpoints, bare DELETE in every statement-ending position, numbers above 65529, LOAD of files with bare numbers) is executed; listed lines, rejection, resulting store and Listing::line are compared with the reference map. The graph is explored to closure: exhaustive for the universe.",
        "Line numbers outside the universe behave like those inside it (the endpoints include values between, before and after the stored lines and the 65529/65530 boundary).",
        "DESIGN.md §3 C15",
    ),
    "C16": (
        "exhaustive enumeration of all single and pairwise spelling deviations of every line of a bounded line space, compared by listing, parsed statements and execution with the canonical spelling",
        "40 lines covering every statement kind and literal form plus every line of the small program space are re-spelled in all 1- and 2-deviation ways (case per token, blanks per gap, aliases ?, ', GO TO, GO SUB, LET, =<, =>, blanks (also a blank and a tab mixed) inside two-character operators and GO TO / GO SUB, lower-case exponent/radix letters); listing (blank-insensitive outside strings/remarks), parsed AST and run transcript must equal the canonical spelling's. Exhaustive within the bound.",
        "The lister keeps the user's blanks by design, so listings are compared with blanks outside strings and remarks removed; gluing is only generated where the property allows it.",
        "DESIGN.md §3 C16",
    ),
    "C17": (
        "exhaustive enumeration of INPUT statement forms x all reply strings up to a bounded length, executed inside a loop on the real interpreter against the reference reply parser",
        "25 INPUT statements x every reply of length <=4 (thorough 5) over a 14-symbol alphabet (digits, signs, E, D, &, H, quote, comma, blank, a letter, one multi-byte character), plus hand-picked and over-long replies, inside FOR..NEXT with all targets printed: prompts, capitalisation flag, REDO FROM START, stored values and loop completion must equal the reference.",
        "Reference refmodel/input.rs; values whose printed notation is not fixed are skipped.",
        "DESIGN.md §3 C17",
    ),
    "C18": (
        "exhaustive enumeration of (loop body x loop shape) programs run for 70 000 iterations, and of every pool driven past its limit, on the real interpreter",
        "54 loop bodies covering every loopable statement kind and built-in function x 3 (thorough 5) loop shapes each run 70 000 times (more than any 65 535-entry pool: a leak of one slot per iteration must surface as OUT OF MEMORY); 90 000 array elements set and reset; twelve ways past a limit (incl. programs of exactly 65 535 / 65 536 / 70 000 one-instruction statements) must report OUT OF MEMORY, not panic, not grow without bound, and leave the session and the next program working.",
        "Only leaks of at least one slot per iteration are certain to be seen; resident-set growth is a coarse threshold.",
        "DESIGN.md §3 C18",
    ),
    "C19": (
        "exhaustive enumeration of programs with one injected fault (every referencing form and list position x missing targets, unmatched WHILE/WEND placements, single-token damage of template lines) x prefixes x line-number widths, executed on the real interpreter",
        "Every diagnostic must name the faulty line, carry a character range inside the listed text that covers exactly the missing number / the keyword, agree with the column in the message and with the LIST underline; RUN, RUN n, GOTO, GOSUB, ON..GOTO and IF..THEN n must print no line's marker and report the errors; PRINT \"D\" and direct-mode loops must still work; a clean program that is stopped (STOP, END, interrupt) and then broken by an edit must not run a line on CONT, RETURN, NEXT, GOTO, GOSUB, RUN (3 stops x 7 edits x 9 resumes x 3 follow-ups). Exhaustive within the fault / prefix / width sets.",
        "Ranges are read from Error::column() and Event::List; token-damaged lines that remain legal BASIC are counted, not judged.",
        "DESIGN.md §3 C19",
    ),
    "C20": (
        "exhaustive enumeration of programs x single and pairwise layout transformations, transcripts compared up to reported line numbers",
        "Every program of the bounded space is re-laid-out (filler REM / ' / empty lines at every gap, empty statements at every boundary, every split of a multi-statement line, direct statement over different stored programs, direct list vs one-line program) and must run to the same transcript after mapping line numbers; a three-line program is entered by 11 direct command sequences at each of its lines at all 84 ascending triples of the line numbers 0 1 2 9 10 32768 65527 65528 65529 and must behave (and terminate) as at 10 20 30. Exhaustive within the bound.",
        "Differential (implementation vs implementation); runs cut by the budget are compared on the common prefix; TRON programs are not split and get no trailing filler line.",
        "DESIGN.md §3 C20",
    ),
    "C05": (
        "exhaustive enumeration of all short strings over four alphabets (plus length-limit shapes) pushed through Line::new -> to_string -> Line::new -> Listing::load_str / Listing::line and compared clause by clause",
        "Every string up to length 4 over the 47-symbol lexical alphabet and up to length 6 over numeric, operator and word alphabets (thorough: 5 / 7 / 8 / 6), as a direct line and with a line number, must list to text that re-enters with the same number and the same parsed statements (or is rejected in both cases), is a fixed point when it parses, keeps string and remark text, and survives load_str and Listing::line; lines at the 1024-byte limit included. Exhaustive within the bounds.",
        "SAVE/LOAD is checked at the two library calls that path makes; longer lines only through periodic shapes.",
        "DESIGN.md §3 C05",
    ),
    "C06": (
        "explicit-state breadth-first search over sequences of assignments, DIM/ERASE, DEFtype, SWAP and CLEAR on a universe of scalar and array names (full-state digest), with a read-back of the whole universe after every transition compared with a reference store",
        "All histories of depth 2 (thorough 3) over 333 statements and depth 3 (thorough 4) over a 142-statement core are executed; after the last step the statement's outcome and the values of all 12 scalar names and of every nameable / stored / corner / just-outside array element must equal the reference store (types via conversion on assignment, defaults, bounds, no aliasing, SWAP atomicity). Exhaustive within the depth bound.",
        "Reference refmodel/store.rs; values the manual leaves open after a DEFtype (type unchanged, value of another type) are left out of the read-back.",
        "DESIGN.md §3 C06",
    ),
    "C07": (
        "exhaustive enumeration of all argument tuples of a boundary universe for every string function, operator and MID$ assignment, through the public entry points and through the interpreter, against a Vec<char> reference",
        "All tuples over 12 boundary strings (ASCII, multi-byte, empty, 255 long) plus all strings up to length 3 (thorough 5) over {a,b,e-acute}, 14 positions/lengths, 12 patterns, 12 character codes and 40 VAL inputs are evaluated for LEN LEFT$ RIGHT$ MID$ INSTR ASC CHR$ STRING$ SPC STR$ VAL HEX$ OCT$, +, six comparisons and MID$ assignment; in-domain results must equal the reference exactly, out-of-domain arguments must give a BASIC error; the 255-character store limit is checked for 3 kinds of target x 9 previous contents x 14 new lengths x 1-, 2- and 3-byte characters (STRING TOO LONG exactly when the new value has more than 255 characters, previous content kept). Exhaustive within the universe.",
        "Reference refmodel/funcs.rs; positions or counts beyond the Integer range are skipped as undefined.",
        "DESIGN.md §3 C07",
    ),
    "C08": (
        "exhaustive enumeration of operand tuples (all 2^32 pairs per operator in the thorough tier) on the real Operation/Function entry points and through the VM, against an exact-arithmetic reference",
        "Every Integer operator is run on every operand pair of the stated bound (quick: every row/column through 65 boundary values, all 65536 unary operands; thorough: all 2^32 pairs) and compared with exact i64 arithmetic; boundary pairs also run through the interpreter, as expressions and as FOR..NEXT loops with Integer counters; a wrapped value, a wrong error or a panic on any pair is reported. Exhaustive within the bound, which for the thorough tier is the whole input space of the property.",
        "Trusts the harness's i64 reference (truncating division, sign-of-dividend MOD) and that VM dispatch adds nothing beyond what the boundary pairs through the interpreter exercise.",
        "DESIGN.md §3 C08",
    ),
}

NOT_BUILT = {}

def main():
    props = [json.loads(l) for l in open("/verif/properties.jsonl")]
    checks = []
    na = []
    for p in props:
        pid = p["id"]
        if pid in CHECKS:
            tech, text, note, ref = CHECKS[pid]
            checks.append({
                "property_id": pid,
                "quick_cmd": f"bin/check {pid} quick",
                "thorough_cmd": f"bin/check {pid} thorough",
                "evidence_file": f"/verif/evidence/{pid}.json",
                "replay_cmd_template": "bin/replay {path}",
                "engine": "mc",
                "level_claimed": {"category": "model_checking", "text": text, "design_ref": ref},
                "level_note": note,
                "technique": tech,
            })
        else:
            na.append({"property_id": pid, "reason": NOT_BUILT.get(pid, "check not built yet in this harness (no technique limitation; see DESIGN.md §8) — not claimed until it exists")})
    m = {
        "version": 1,
        "setup_cmd": "cd /verif/mc && CARGO_NET_OFFLINE=true cargo build --release --offline",
        "hooks": {
            "guard": "cargo feature `verif` of basic-lang",
            "enable": "the harness crate /verif/mc depends on basic-lang by path=/repo with features=[\"verif\"]; `bin/check` rebuilds both from the working tree on every run",
            "baseline_off_cmd": "cd /repo && cargo test --workspace --no-fail-fast --offline",
            "source_commits": HOOK_COMMITS,
            "add_only": True,
        },
        "engines": [{
            "name": "mc",
            "path": "/verif/mc",
            "serves_properties": sorted(CHECKS.keys()),
            "kind_free_text": "Rust harness: sharded exhaustive enumerator (E-enum), subprocess-isolated sweeps with watchdog (E-sweep) and explicit-state breadth-first search over session histories with full-state digests (E-space), all executing the real basic-lang crate and judged by harness reference models or differential relations",
        }],
        "checks": checks,
        "not_applicable": na,
        "notes": "Exit codes: 0 held / 1 VIOLATION line(s) / 2 machinery failure. Known findings: /verif/known_findings.json. VERIF_SEED only permutes shard order.",
    }
    json.dump(m, open("/verif/MANIFEST.json", "w"), indent=1)
    print("checks:", len(checks), "not_applicable:", len(na))

main()
