#!/bin/bash
# seed_run.sh <name> <tier> <ID>...: apply /verif/seeded/<name>/patch.diff to /repo, run the given checks, undo.
set -u
NAME="$1"; TIER="$2"; shift 2
cd /repo || exit 2
if [ -n "$(git status --porcelain -- src)" ]; then echo "/repo/src not clean"; exit 2; fi
git apply /verif/seeded/$NAME/patch.diff || { echo "patch does not apply"; exit 3; }
RES=""
mkdir -p /tmp/seedrun-$NAME && cp /verif/known_findings.json /tmp/seedrun-$NAME/
for ID in "$@"; do
  OUT=$(cd /verif && VERIF_ROOT=/tmp/seedrun-$NAME bin/check $ID $TIER 2>/dev/null); RC=$?
  SIG=$(echo "$OUT" | grep -m2 "signature=" | sed -E 's/.*signature=([^ ]+).*/\1/' | paste -sd,)
  RES="$RES $ID:rc=$RC[$SIG]"
done
git checkout -- . 
rm -rf /tmp/seedrun-$NAME
echo "$NAME:$RES"
