#!/bin/bash
# seed_run.sh <name> <tier> <ID>...: apply /verif/seeded/<name>/patch.diff to /repo, run the given checks, undo.
# A check that ends with a machinery failure (rc>=2) leaves its output in /tmp/seedrun-logs/<name>.<ID>.log
set -u
NAME="$1"; TIER="$2"; shift 2
cd /repo || exit 2
if [ -n "$(git status --porcelain -- src)" ]; then echo "/repo/src not clean"; exit 2; fi
git apply /verif/seeded/$NAME/patch.diff 2>/dev/null || git apply --3way /verif/seeded/$NAME/patch.diff >/dev/null 2>&1 || { echo "$NAME: patch does not apply"; git reset -q --hard HEAD; exit 3; }
if git diff --cached --name-only | grep -q . && git diff --cached | grep -q "^+<<<<<<<"; then echo "$NAME: patch conflicts"; git reset -q --hard HEAD; exit 3; fi
RES=""
mkdir -p /tmp/seedrun-$NAME /tmp/seedrun-logs && cp /verif/known_findings.json /tmp/seedrun-$NAME/
for ID in "$@"; do
  OUT=$(cd /verif && VERIF_ROOT=/tmp/seedrun-$NAME bin/check $ID $TIER 2>/tmp/seedrun-logs/$NAME.$ID.err); RC=$?
  SIG=$(echo "$OUT" | grep -m2 "signature=" | sed -E 's/.*signature=([^ ]+).*/\1/' | paste -sd,)
  RES="$RES $ID:rc=$RC[$SIG]"
  if [ $RC -ge 2 ]; then { echo "$OUT"; cat /tmp/seedrun-logs/$NAME.$ID.err; } > /tmp/seedrun-logs/$NAME.$ID.log; fi
  rm -f /tmp/seedrun-logs/$NAME.$ID.err
done
git reset -q --hard HEAD
rm -rf /tmp/seedrun-$NAME
echo "$NAME:$RES"
