#!/bin/bash
# seed_verify.sh <srcdir> <name>: confirm a seeded change in a scratch worktree:
#  - demo passes on the unmodified tree, fails with the patch
#  - the existing suite passes with the patch
# On success copies patch.diff, demo.rs, meta.json to /verif/seeded/<name>/ with a verify log.
set -u
SRC="$1"; NAME="$2"
WT=/tmp/seedverify/wt-$NAME
export CARGO_TARGET_DIR=/tmp/seedverify/target CARGO_NET_OFFLINE=true
mkdir -p /tmp/seedverify
git -C /repo worktree remove --force "$WT" 2>/dev/null
git -C /repo worktree add -q --detach "$WT" HEAD || exit 2
cd "$WT" || exit 2
LOG=/tmp/seedverify/$NAME.log; : > "$LOG"
cp "$SRC/demo.rs" tests/seed_demo.rs
cargo test --offline --test seed_demo >>"$LOG" 2>&1; CLEAN_DEMO=$?
if ! git apply "$SRC/patch.diff" 2>>"$LOG"; then echo "$NAME: PATCH DOES NOT APPLY"; git -C /repo worktree remove --force "$WT"; exit 3; fi
cargo test --offline --test seed_demo >>"$LOG" 2>&1; PATCH_DEMO=$?
rm tests/seed_demo.rs
cargo test --offline --workspace --no-fail-fast >>"$LOG" 2>&1; SUITE=$?
PASSED=$(grep -E "^test result: ok" "$LOG" | tail -7 | sed -E 's/.*ok\. ([0-9]+) passed.*/\1/' | paste -sd+ | bc)
cd /; git -C /repo worktree remove --force "$WT"
echo "$NAME: demo_on_clean=$CLEAN_DEMO (want 0) demo_with_patch=$PATCH_DEMO (want !=0) suite_with_patch=$SUITE (want 0) suite_passed=$PASSED"
if [ "$CLEAN_DEMO" = 0 ] && [ "$PATCH_DEMO" != 0 ] && [ "$SUITE" = 0 ]; then
  mkdir -p /verif/seeded/$NAME
  cp "$SRC/patch.diff" "$SRC/demo.rs" /verif/seeded/$NAME/
  cp "$SRC/meta.json" /verif/seeded/$NAME/agent_meta.json
  echo "verified at repo $(git -C /repo rev-parse --short HEAD): demo passes on clean tree, fails with patch; existing suite passes with patch ($PASSED tests)" > /verif/seeded/$NAME/verify.txt
  exit 0
fi
exit 1
